#!/bin/bash
# usage: run_seeded.sh <patch.diff> <property> [tier]  -- applies a change to a scratch worktree of /repo and runs the check there
patch="$1"; prop="$2"; tier="${3:-quick}"
export GOFLAGS=-mod=mod GOPROXY=off GOSUMDB=off GOTOOLCHAIN=local
wt=/tmp/repo_rs_$$
git -C /repo worktree add -q $wt HEAD || exit 3
trap 'git -C /repo worktree remove --force '$wt' 2>/dev/null; rm -rf /tmp/rs_out_$$' EXIT
git -C $wt apply "$patch" || { echo "patch does not apply"; exit 3; }
SYMGO_REPO=$wt SYMGO_OUT=/tmp/rs_out_$$ /verif/bin/symgo check "$prop" --tier "$tier" > /tmp/rs_$$.txt 2>&1; rc=$?
egrep "VIOLATION|counterexample|NOTE|INCONCLUSIVE|^$prop " /tmp/rs_$$.txt | sed "s#$wt#/repo#g" | cut -c1-260 | head -${LINES_MAX:-6}
echo "exit=$rc"; rm -f /tmp/rs_$$.txt
