#!/bin/bash
# usage: run_seeded.sh <patch.diff> <property> [tier]  -- applies a seeded change to /repo, runs the check, reverts
set -u
patch="$1"; prop="$2"; tier="${3:-quick}"
cd /repo || exit 3
if [ -n "$(git status --porcelain --untracked-files=no)" ]; then echo "repo dirty"; exit 3; fi
git apply "$patch" || { echo "patch does not apply"; exit 3; }
cd /verif && ./run_check.sh "$prop" "$tier" > /tmp/seeded_out.txt 2>&1; rc=$?
egrep "VIOLATION|counterexample|NOTE|INCONCLUSIVE|^$prop " /tmp/seeded_out.txt | cut -c1-260 | head -${LINES_MAX:-6}
echo "exit=$rc"
git -C /repo checkout -- .
