#!/usr/bin/env python3
# Generates MANIFEST.json from checks/*.json + manifest_meta.json (kept by hand).
import json, glob, os
meta = json.load(open('/verif/manifest_meta.json'))
props = [json.loads(l)['id'] for l in open('/verif/properties.jsonl')]
checks = []
claimed = set()
for pid in props:
    f = f'/verif/checks/{pid}.json'
    if not os.path.exists(f) or pid in meta.get('unclaimed', {}):
        continue
    m = meta['checks'].get(pid, {})
    claimed.add(pid)
    checks.append({
        "property_id": pid,
        "quick_cmd": f"./run_check.sh {pid} quick",
        "thorough_cmd": f"./run_check.sh {pid} thorough",
        "evidence_file": f"/verif/evidence/{pid}.json",
        "replay_cmd_template": "sh {path}",
        "engine": "symgo",
        "technique": m.get("technique", "bounded symbolic execution of go/ssa into SMT (z3/cvc5), inductive step lemmas + BMC, native replay of models"),
        "level_claimed": {"category": "other", "text": m["level_text"], "design_ref": m.get("design_ref", "DESIGN.md section 4")},
        "level_note": m["level_note"],
    })
na = []
for pid in props:
    if pid in claimed:
        continue
    na.append({"property_id": pid, "reason": meta['not_applicable'].get(pid, "no check built yet with the solver-based technique; not claimed")})
man = {
    "version": 1,
    "setup_cmd": "cd /verif/symgo && GOFLAGS=-mod=mod GOPROXY=off GOSUMDB=off GOTOOLCHAIN=local go build -o /verif/bin/symgo .",
    "hooks": {
        "guard": "verif",
        "enable": "no source hooks: harnesses are injected as go/packages and `go test -overlay` overlays from /verif/harness; the build tag 'verif' is reserved and unused",
        "baseline_off_cmd": "cd /repo && GOFLAGS=-mod=mod GOPROXY=off go test -vet=off -count=1 ./...",
        "source_commits": meta.get("source_commits", []),
        "add_only": True,
    },
    "engines": [{"name": "symgo", "path": "/verif/symgo", "serves_properties": sorted(claimed),
                 "kind_free_text": "own symbolic executor: go/ssa (x/tools v0.29.0) -> hash-consed SMT terms (bit-vectors, FloatingPoint/UF) -> z3 4.8.12 / z3 5.1.0 / cvc5 1.0.3; symbolic branches executed on both arms and merged at the immediate post-dominator; guarded pointer sets; counterexamples replayed natively with go test -overlay"}],
    "checks": checks,
    "not_applicable": na,
    "notes": meta.get("notes", ""),
}
json.dump(man, open('/verif/MANIFEST.json', 'w'), indent=1)
print("claimed", sorted(claimed), "n/a", [x['property_id'] for x in na])
