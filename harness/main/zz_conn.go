package main

// handleConn harness: C14 framing loop (frames delivered once, in order, with
// exact bytes; 'clear' markers reset; alignment kept; truncation returns an
// error), the restart request on bad frames (C13), and the wiring of the
// recorders (C05 / C11 / C17).

import (
	"bufio"
	"errors"
	"fmt"
	"io"
	"net"
	"os"
	"time"

	goconfig "github.com/TheCacophonyProject/go-config"
	"github.com/TheCacophonyProject/go-cptv/cptvframe"
	"github.com/TheCacophonyProject/lepton3"
	"github.com/TheCacophonyProject/thermal-recorder/headers"
	"github.com/TheCacophonyProject/thermal-recorder/leptondController"
	"github.com/TheCacophonyProject/thermal-recorder/motion"
	"github.com/TheCacophonyProject/thermal-recorder/recorder"
	"github.com/TheCacophonyProject/thermal-recorder/throttle"
	"github.com/TheCacophonyProject/window"
	"github.com/juju/ratelimit"
)

const (
	zzK         = 6
	zzFrameSize = 8 // 2x2 pixels
	zzStreamMax = zzK*zzFrameSize + zzFrameSize
)

var (
	zzItems     int // complete items before the stream ends
	zzKind      [zzK]int
	zzBytes     [zzK][zzFrameSize]byte
	zzFrag      int // bytes of an incomplete trailing item
	zzFragBytes [zzFrameSize]byte
	zzStream    [zzStreamMax]byte // the byte stream after the header
	zzLen       int
	zzPos       int
	zzCalls     int
	zzOrderOK   bool
	zzProcN     int
	zzResetN    int
	zzRestarts  int
	zzBadN      int
	zzHdr       *headers.HeaderInfo
	zzTrig      int
	zzResults   [zzK]int
	zzShort     [zzStreamMax]int // sizes of short reads, should the code use Reader.Read
	zzReads     int
)

func zzStubNewReader(rd io.Reader) *bufio.Reader { return new(bufio.Reader) }

func zzStubReadHeaderInfo(r *bufio.Reader) (*headers.HeaderInfo, error) { return zzHdr, nil }

var zzLoadedModel string

func zzStubLoadMotionConfig(c *Config, model string) error {
	zzLoadedModel = model
	c.Motion = goconfig.ThermalMotion{TempThresh: 2900, DeltaThresh: 50, CountThresh: 3, FrameCompareGap: 2, TriggerFrames: zzTrig, UseOneDiffOnly: true}
	return nil
}

func zzStubMarshal(in interface{}) ([]byte, error) { return []byte("MY"), nil }

func zzStubMkdir(name string, perm os.FileMode) error { return nil }

func zzStubAddEvent() {}

func zzStubSetAutoFFC(b bool) error { return nil }

func zzStubRestartCamera() error {
	zzRestarts++
	return nil
}

// zzStubReadFull: io.ReadFull by contract over the ghost byte stream.
func zzStubReadFull(r io.Reader, buf []byte) (int, error) {
	n := len(buf)
	avail := zzLen - zzPos
	if avail >= n {
		for i := 0; i < n; i++ {
			buf[i] = zzStream[zzPos+i]
		}
		zzPos += n
		return n, nil
	}
	if avail <= 0 {
		return 0, io.EOF
	}
	for i := 0; i < zzStreamMax; i++ {
		if i < avail && i < n {
			buf[i] = zzStream[zzPos+i]
		}
	}
	zzPos = zzLen
	return avail, io.ErrUnexpectedEOF
}

// zzStubRead: (*bufio.Reader).Read by contract: at least one and at most
// len(buf) of the bytes that are left (a short read is allowed), io.EOF at the end.
func zzStubRead(r *bufio.Reader, buf []byte) (int, error) {
	avail := zzLen - zzPos
	if len(buf) == 0 {
		return 0, nil
	}
	if avail <= 0 {
		return 0, io.EOF
	}
	n := 1
	if 0 <= zzReads && zzReads < zzStreamMax {
		n = zzShort[zzReads]
	}
	zzReads++
	if n > len(buf) {
		n = len(buf)
	}
	if n > avail {
		n = avail
	}
	for i := 0; i < zzStreamMax; i++ {
		if i < n {
			buf[i] = zzStream[zzPos+i]
		}
	}
	zzPos += n
	return n, nil
}

func zzStubProcess(mp *motion.MotionProcessor, raw []byte) error {
	it := zzCalls
	zzCalls++
	zzProcN++
	ok := it < zzItems && zzKind[it] == 0 && len(raw) == zzFrameSize
	if ok {
		for i := 0; i < zzFrameSize; i++ {
			if raw[i] != zzBytes[it][i] {
				ok = false
			}
		}
	}
	if !ok {
		zzOrderOK = false
	}
	res := 0
	if 0 <= it && it < zzK {
		res = zzResults[it]
	}
	switch res {
	case 1:
		zzBadN++
		return &lepton3.BadFrameErr{Cause: errors.New("bad")}
	case 2:
		return errors.New("other")
	}
	return nil
}

func zzStubReset(mp *motion.MotionProcessor, cam cptvframe.CameraSpec) {
	it := zzCalls
	zzCalls++
	zzResetN++
	if !(it < zzItems && zzKind[it] == 1) || cam != cptvframe.CameraSpec(headerInfo) {
		zzOrderOK = false
	}
}

// zzConn: native connection delivering the stream in small arbitrary segments.
type zzConn struct {
	data []byte
	seg  int
}

func (c *zzConn) Read(p []byte) (int, error) {
	if len(c.data) == 0 {
		return 0, io.EOF
	}
	n := c.seg
	if n > len(p) {
		n = len(p)
	}
	if n > len(c.data) {
		n = len(c.data)
	}
	copy(p, c.data[:n])
	c.data = c.data[n:]
	return n, nil
}
func (c *zzConn) Write(p []byte) (int, error)        { return len(p), nil }
func (c *zzConn) Close() error                       { return nil }
func (c *zzConn) LocalAddr() net.Addr                { return nil }
func (c *zzConn) RemoteAddr() net.Addr               { return nil }
func (c *zzConn) SetDeadline(t time.Time) error      { return nil }
func (c *zzConn) SetReadDeadline(t time.Time) error  { return nil }
func (c *zzConn) SetWriteDeadline(t time.Time) error { return nil }

func zzModelName(m int) string {
	switch m {
	case 0:
		return lepton3.Model
	case 1:
		return lepton3.Model35
	case 2:
		return "boson"
	}
	return "other"
}

func ZZ_CONN() {
	K := zzParam("K")
	minS, maxS, prevS, fps, T := zzParam("minS"), zzParam("maxS"), zzParam("prevS"), zzParam("fps"), zzParam("T")
	throttled, constant := zzParam("THR") == 1, zzParam("CR") == 1
	bucketS, refillS := zzParam("bucketS"), zzParam("refillS")
	model := zzModelName(zzParam("MODEL"))
	zzTrig = T
	// ---- ghost stream
	zzItems = zzInt("items", 0)
	zzAssume(0 <= zzItems && zzItems <= K)
	for k := 0; k < K; k++ {
		zzKind[k] = zzInt("kind", k)
		zzAssume(zzKind[k] == 0 || zzKind[k] == 1)
		clear5 := true
		for i := 0; i < zzFrameSize; i++ {
			zzBytes[k][i] = zzU8("b", k*zzFrameSize+i)
			if i < 5 && zzBytes[k][i] != clearBuffer[i] {
				clear5 = false
			}
		}
		zzAssume(!clear5) // protocol assumption: no frame begins with the bytes "clear"
		zzResults[k] = zzInt("result", k)
		zzAssume(0 <= zzResults[k] && zzResults[k] <= 2)
	}
	zzFrag = zzInt("frag", 0)
	zzAssume(0 <= zzFrag && zzFrag < zzFrameSize)
	fragClear := zzFrag >= 5
	for i := 0; i < zzFrameSize; i++ {
		zzFragBytes[i] = zzU8("f", i)
		if i < 5 && zzFragBytes[i] != clearBuffer[i] {
			fragClear = false
		}
	}
	zzAssume(!fragClear)
	zzReads = 0
	for i := 0; i < zzStreamMax; i++ {
		zzShort[i] = 1 + zzInt("short", i)
		zzAssume(1 <= zzShort[i] && zzShort[i] <= zzFrameSize)
	}
	zzCalls, zzOrderOK, zzProcN, zzResetN, zzRestarts, zzBadN = 0, true, 0, 0, 0, 0
	// lay the items and the fragment out as one byte stream
	zzLen, zzPos = 0, 0
	for k := 0; k < K; k++ {
		if k < zzItems {
			if zzKind[k] == 1 {
				for i := 0; i < 5; i++ {
					zzStream[zzLen+i] = clearBuffer[i]
				}
				zzLen += 5
			} else {
				for i := 0; i < zzFrameSize; i++ {
					zzStream[zzLen+i] = zzBytes[k][i]
				}
				zzLen += zzFrameSize
			}
		}
	}
	for i := 0; i < zzFrameSize; i++ {
		if i < zzFrag {
			zzStream[zzLen+i] = zzFragBytes[i]
		}
	}
	zzLen += zzFrag
	frameLogIntervalFirstMin, frameLogInterval = 15, 60*5

	conf := &Config{
		DeviceName: "zzdevice", DeviceID: 7, FrameInput: "/nonexistent", OutputDir: zzOutDir(), MinDiskSpace: 1,
		Recorder:  recorder.RecorderConfig{MinSecs: minS, MaxSecs: maxS, PreviewSecs: prevS, Window: window.Window{NoWindow: true}, ConstantRecorder: constant},
		Throttler: goconfig.ThermalThrottler{Activate: throttled, BucketSize: time.Duration(bucketS) * time.Second, MinRefill: time.Duration(refillS) * time.Second},
		Location:  goconfig.Location{Latitude: 1.5, Longitude: 2.5, Altitude: 3.5, Accuracy: 4.5},
	}
	var conn net.Conn
	if zzSymbolic() {
		zzHdr = &headers.HeaderInfo{}
		zzSetFieldInt(zzHdr, "resX", 2)
		zzSetFieldInt(zzHdr, "resY", 2)
		zzSetFieldInt(zzHdr, "fps", int64(fps))
		zzSetFieldInt(zzHdr, "framesize", zzFrameSize)
		zzSetFieldInt(zzHdr, "serial", 4242)
		zzSetFieldStr(zzHdr, "brand", "flir")
		zzSetFieldStr(zzHdr, "model", model)
		zzSetFieldStr(zzHdr, "firmware", "1.2.3")
	} else {
		hdr := fmt.Sprintf("ResX: 2\nResY: 2\nFPS: %d\nFrameSize: %d\nBrand: flir\nModel: %s\nCameraSerial: 4242\nFirmware: 1.2.3\n\n", fps, zzFrameSize, model)
		data := []byte(hdr)
		for k := 0; k < zzItems; k++ {
			if zzKind[k] == 1 {
				data = append(data, clearBuffer...)
			} else {
				data = append(data, zzBytes[k][:]...)
			}
		}
		data = append(data, zzFragBytes[:zzFrag]...)
		if len(data)-len(hdr) != zzLen {
			panic("zz: stream layout mismatch")
		}
		conn = &zzConn{data: data, seg: zzShort[0]}
		motion.ZZHookProcess, motion.ZZHookReset = zzStubProcess, zzStubReset
		leptondController.ZZHookRestartCamera = zzStubRestartCamera
	}
	zzReach("stream drawn")
	err := handleConn(conn, conf)

	if model == "other" {
		zzAssert(err != nil && zzCalls == 0, "C11: an unknown camera model is refused")
		return
	}
	// ---- C14: framing
	frames, markers := 0, 0
	for k := 0; k < K; k++ {
		if k < zzItems {
			if zzKind[k] == 0 {
				frames++
			} else {
				markers++
			}
		}
	}
	zzAssert(err != nil, "C14: the connection ending is reported as an error")
	zzAssert(zzProcN == frames, "C14: every complete frame is delivered exactly once")
	zzAssert(zzResetN == markers, "C14: every 'clear' marker resets the processor exactly once")
	zzAssert(zzOrderOK, "C14: frames and markers are delivered in stream order with their exact bytes (alignment kept)")
	zzAssert(zzRestarts == zzBadN, "C13: a camera restart is requested exactly for bad frames")
	if frames > 0 && markers > 0 {
		zzReach("frames and markers")
	}
	if zzFrag >= 5 {
		zzReach("stream cut inside a frame")
	}

	// ---- wiring (C05 / C11 / C17)
	p := processor
	zzAssert(p != nil, "processor built")
	zzAssert(zzFieldInt(p, "minFrames") == int64(minS*fps) && zzFieldInt(p, "maxFrames") == int64(maxS*fps) && zzFieldInt(p, "triggerFrames") == int64(T), "C11: min/max secs, fps of the camera and trigger frames shape the processor")
	fl, okfl := zzFieldVal(p, "frameLoop").(*motion.FrameLoop)
	zzAssert(okfl && zzFieldInt(fl, "size") == int64(prevS*fps+T), "C11: pre-trigger buffer holds preview-secs*fps + trigger-frames frames")
	rec := zzFieldVal(p, "recorder")
	var fileRec *CPTVFileRecorder
	if throttled {
		zzReach("throttled wiring")
		tr, ok := rec.(*throttle.ThrottledRecorder)
		zzAssert(ok, "C05/C11: with throttling active the motion sink is the throttled recorder")
		zzAssert(zzFieldInt(tr, "minRecordingLength") == int64((minS+prevS)*fps), "C05/C11: the throttle's minimum clip is (min-secs+preview-secs)*fps frames")
		b, okb := zzFieldVal(tr, "bucket").(*ratelimit.Bucket)
		zzAssert(okb && b.Capacity() == int64(bucketS*fps), "C05: bucket sized bucket-size*fps frames")
		inner, oki := zzFieldVal(tr, "recorder").(*CPTVFileRecorder)
		zzAssert(oki && inner != nil, "C05: the throttle wraps the CPTV file recorder")
		fileRec = inner
	} else {
		zzReach("unthrottled wiring")
		fr, ok := rec.(*CPTVFileRecorder)
		zzAssert(ok && fr != nil, "C11: with throttling off the motion sink is the CPTV file recorder itself")
		fileRec = fr
	}
	cr := zzFieldVal(p, "constantRecorder")
	crf, okc := cr.(*CPTVFileRecorder)
	zzAssert(okc, "C17: the continuous sink is never wrapped by the throttle")
	if constant {
		zzAssert(crf != nil && crf.constantRecorder && zzFieldInt(p, "constantRecording") == 1, "C17: continuous recorder enabled by configuration")
	} else {
		zzAssert(crf == nil && zzFieldInt(p, "constantRecording") == 0, "C17: continuous recorder off by configuration")
	}
	sr, oks := zzFieldVal(p, "snapshotRecorder").(*CPTVFileRecorder)
	zzAssert(oks && sr != nil && !sr.constantRecorder, "C17: the test-recording sink is a plain file recorder")
	zzAssert(sr != fileRec && (crf == nil || (crf != fileRec && crf != sr)), "C11/C12/C17: motion, continuous and test recordings go to three distinct file recorders")
	// ---- CPTV header built from configuration and camera description (C11)
	h := fileRec.header
	zzAssert(h.DeviceName == "zzdevice" && h.DeviceID == 7 && h.PreviewSecs == prevS && h.FPS == fps, "C11: header carries device name/id, preview-secs and fps")
	zzAssert(h.Brand == "flir" && h.Model == model && h.CameraSerial == 4242 && h.Firmware == "1.2.3", "C11: header carries camera brand, model, serial and firmware")
	zzAssert(h.Latitude == 1.5 && h.Longitude == 2.5 && h.Altitude == 3.5 && h.Accuracy == 4.5, "C11: header carries the location")
	zzAssert(fileRec.outputDir == conf.OutputDir && fileRec.minDiskSpace == 1, "C11: output directory and min disk space from configuration")
	zzAssert(zzLoadedModel == model, "C11: camera-model motion defaults are loaded for the connected model")

	// ---- a second connection from another camera model on the same process
	model2 := zzModelName((zzParam("MODEL") + 1) % 3)
	zzLen, zzPos, zzItems, zzFrag = 0, 0, 0, 0
	zzLoadedModel = ""
	if zzSymbolic() {
		zzSetFieldStr(zzHdr, "model", model2)
	} else {
		hdr := fmt.Sprintf("ResX: 2\nResY: 2\nFPS: %d\nFrameSize: %d\nBrand: flir\nModel: %s\nCameraSerial: 4242\nFirmware: 1.2.3\n\n", fps, zzFrameSize, model2)
		conn = &zzConn{data: []byte(hdr), seg: 3}
	}
	handleConn(conn, conf)
	zzReach("second connection")
	zzAssert(zzLoadedModel == model2, "C11: on reconnect the motion defaults follow the new camera model")
}

func zzOutDir() string {
	if zzSymbolic() {
		return "/zz-out"
	}
	d, err := os.MkdirTemp("", "zzconn")
	if err != nil {
		panic(err)
	}
	return d
}

// replay entries of this file (registered here so that the file can be left out
// on its own when it does not compile against the tree under check)
func init() {
	zzEntries["ZZ_CONN"] = ZZ_CONN
}
