package leptondController

// Hook variable used only by native replays (cross-package stub).
var ZZHookRestartCamera func() error
