package main

// Harnesses for cmd/thermal-recorder: raw frame parsers (C13).

import (
	"time"

	"github.com/TheCacophonyProject/go-cptv/cptvframe"
	"github.com/TheCacophonyProject/lepton3"
)

var zzEntries = map[string]func(){}

type zzCam struct{ x, y, fps int }

func (c zzCam) ResX() int { return c.x }
func (c zzCam) ResY() int { return c.y }
func (c zzCam) FPS() int  { return c.fps }

func zzInteriorPx(x, y, W, H, e int) bool { return e <= x && x < W-e && e <= y && y < H-e }

// zzStubParseTelemetry replaces lepton3.ParseTelemetry (encoding/binary.Read
// through reflection) under the engine; natively the real one runs.
func zzStubParseTelemetry(raw []byte, t *cptvframe.Telemetry) error { return nil }

func zzParserCheck(boson bool) {
	W, H, e := zzParam("W"), zzParam("H"), zzParam("e")
	off := 0
	if !boson {
		off = lepton3.BytesPerFrame - 2*lepton3.FrameCols*lepton3.FrameRows
	}
	raw := make([]byte, off+2*W*H)
	for i := 0; i < 2*W*H; i++ {
		raw[off+i] = zzU8("raw", i)
	}
	out := cptvframe.NewFrame(zzCam{W, H, 9})
	// the slot handed to the parser holds stale data
	for y := 0; y < H; y++ {
		for x := 0; x < W; x++ {
			out.Pix[y][x] = zzU16("stale", y*W+x)
		}
	}
	word := func(x, y int) uint16 {
		i := off + 2*(y*W+x)
		if boson {
			return uint16(raw[i]) | uint16(raw[i+1])<<8
		}
		return uint16(raw[i])<<8 | uint16(raw[i+1])
	}
	anyZero := false
	for y := 0; y < H; y++ {
		for x := 0; x < W; x++ {
			if zzInteriorPx(x, y, W, H, e) && word(x, y) == 0 {
				anyZero = true
			}
		}
	}
	zzReach("pre-state")
	var err error
	if boson {
		err = convertRawBosonFrame(raw, out, e)
	} else {
		err = lepton3.ParseRawFrame(raw, out, e)
	}
	_, isBad := err.(*lepton3.BadFrameErr)
	if anyZero {
		zzReach("zero pixel inside the border")
		zzAssert(err != nil && isBad, "C13: a zero-valued pixel outside the edge border is reported as a bad frame")
	} else {
		zzReach("valid frame")
		zzAssert(err == nil, "C13: frames without interior zero pixels are accepted (zeros in the border are fine)")
		for y := 0; y < H; y++ {
			for x := 0; x < W; x++ {
				zzAssert(out.Pix[y][x] == word(x, y), "C13: valid raw frames are decoded pixel-exactly")
			}
		}
		if boson {
			zzAssert(out.Status.TimeOn-out.Status.LastFFCTime >= 10*time.Second, "C13: Boson frames carry 'no recent FFC' telemetry")
		}
	}
}

func ZZ_C13_boson()  { zzParserCheck(true) }
func ZZ_C13_lepton() { zzParserCheck(false) }

// replay entries of this file (registered here so that the file can be left out
// on its own when it does not compile against the tree under check)
func init() {
	zzEntries["ZZ_C13_boson"] = ZZ_C13_boson
	zzEntries["ZZ_C13_lepton"] = ZZ_C13_lepton
}
