package motion

import "github.com/TheCacophonyProject/go-cptv/cptvframe"

// Hook variables used only by native replays of cmd/thermal-recorder harnesses
// (cross-package stubs): the replay overlay forwards Process/Reset through them.
var (
	ZZHookProcess func(mp *MotionProcessor, rawFrame []byte) error
	ZZHookReset   func(mp *MotionProcessor, camera cptvframe.CameraSpec)
)
