package main

// C11 (StartRecording header part): the header handed to the CPTV writer at
// each trigger carries the motion configuration plus exactly this trigger's
// threshold, and this trigger's background frame; state does not leak from one
// recording of the same recorder into the next.

import (
	"errors"
	"os"
	"strings"

	goconfig "github.com/TheCacophonyProject/go-config"
	cptv "github.com/TheCacophonyProject/go-cptv"
	"github.com/TheCacophonyProject/go-cptv/cptvframe"
	"github.com/TheCacophonyProject/thermal-recorder/recorder"
	"github.com/TheCacophonyProject/window"
	yaml "gopkg.in/yaml.v2"
)

var (
	zzHdrs      [4]cptv.Header
	zzHdrN      int
	zzNewN      int
	zzClosedN   int
	zzFailNew   bool
	zzFailHdr   bool
	zzLastCam   cptvframe.CameraSpec
	zzRenamedN  int
	zzAutoFFCOn [8]bool
	zzAutoN     int
)

func zzStubNewFileWriter(filename string, c cptvframe.CameraSpec) (*cptv.FileWriter, error) {
	zzNewN++
	zzLastCam = c
	if zzFailNew {
		return nil, errors.New("create failed")
	}
	return &cptv.FileWriter{}, nil
}

func zzStubWriteHeader(w *cptv.Writer, h cptv.Header) error {
	if zzHdrN < 4 {
		zzHdrs[zzHdrN] = h
	}
	zzHdrN++
	if zzFailHdr {
		return errors.New("header failed")
	}
	return nil
}

func zzStubFWClose(fw *cptv.FileWriter)       { zzClosedN++ }
func zzStubFWName(fw *cptv.FileWriter) string { return "zz.cptv.temp" }
func zzStubTempName() string                  { return "zz.cptv.temp" }
func zzStubRenameTemp(tempName string) (string, error) {
	zzRenamedN++
	return "zz.cptv", nil
}
func zzStubSetAutoFFC2(on bool) error {
	if zzAutoN < 8 {
		zzAutoFFCOn[zzAutoN] = on
	}
	zzAutoN++
	return nil
}

func ZZ_C11_start() {
	th1, th2 := uint16(zzParam("th1")), uint16(zzParam("th2"))
	// device id and location are arbitrary (id 0 = "not set": the name must still be carried)
	devid := zzInt("devid", 0)
	zzAssume(devid >= 0 && devid <= 1<<30)
	lat, lon, alt, acc := zzF32bits("loc", 0), zzF32bits("loc", 1), zzF32bits("loc", 2), zzF32bits("loc", 3)
	zzAssume(lat == lat && lon == lon && alt == alt && acc == acc) // not NaN
	locT := zzTimeNs(1600000000 * 1000000000)
	conf := &Config{DeviceName: "zzdevice", DeviceID: devid, OutputDir: zzOutDir(), MinDiskSpace: 1,
		Location: goconfig.Location{Timestamp: locT, Latitude: lat, Longitude: lon, Altitude: alt, Accuracy: acc},
		Recorder: recorder.RecorderConfig{MinSecs: 2, MaxSecs: 7, PreviewSecs: 3, Window: window.Window{NoWindow: true}},
		Motion:   goconfig.ThermalMotion{TempThresh: 2900, DeltaThresh: 50, CountThresh: 3, FrameCompareGap: 2, TriggerFrames: 1},
	}
	cam := zzCam{2, 2, 5}
	fr := NewCPTVFileRecorder(conf, cam, "flir", "boson", 4242, "1.2.3")
	base := "MY" // what the yaml.Marshal stub returns under the engine
	if !zzSymbolic() {
		b, err := yaml.Marshal(conf.Motion)
		if err != nil {
			panic(err)
		}
		base = string(b)
	}
	bg1, bg2 := cptvframe.NewFrame(cam), cptvframe.NewFrame(cam)
	bg1.Pix[0][0], bg2.Pix[0][0] = 1111, 2222
	zzFailNew, zzFailHdr = zzBool("failNew", 0), zzBool("failHdr", 0)
	zzReach("recorder built")

	origName := fr.header.DeviceName
	if !zzSymbolic() {
		// native fault injection for the first start: an output directory that does
		// not exist makes file creation fail; an over-long device name makes the
		// header write fail
		if zzFailNew {
			fr.outputDir = "/nonexistent-zz-dir"
		} else if zzFailHdr {
			fr.header.DeviceName = strings.Repeat("x", 300)
		}
	}
	err1 := fr.StartRecording(bg1, th1)
	if !zzSymbolic() {
		fr.outputDir = conf.OutputDir
		fr.header.DeviceName = origName
	}
	if zzFailNew || zzFailHdr {
		zzReach("first start fails")
		zzAssert(err1 != nil && fr.writer == nil, "C12: a failed start leaves the recorder closed")
		if zzFailHdr && !zzFailNew && zzSymbolic() {
			zzAssert(zzClosedN == 1, "C10/C12: the writer of a failed start is closed")
		}
	} else {
		zzAssert(err1 == nil && fr.writer != nil, "first recording starts")
		fr.StopRecording()
	}
	zzFailNew, zzFailHdr = false, false
	n0 := zzHdrN
	err2 := fr.StartRecording(bg2, th2)
	zzAssert(err2 == nil, "C11: the next recording starts normally")
	if zzSymbolic() {
		zzAssert(zzHdrN == n0+1, "C11: one header per recording")
	}
	zzReach("second recording started")
	if zzSymbolic() {
		h := zzHdrs[n0]
		zzAssert(h.MotionConfig == base+zzThreshLine(th2), "C11: header carries the motion configuration plus exactly this trigger's threshold")
		zzAssert(h.BackgroundFrame == bg2, "C11/C15: header carries the background frame in force at this trigger")
		zzAssert(h.Latitude == lat && h.Longitude == lon && h.Altitude == alt && h.Accuracy == acc && h.LocTimestamp.Equal(locT), "C11: header carries the configured location")
		zzAssert(h.DeviceName == "zzdevice" && h.DeviceID == devid && h.PreviewSecs == 3 && h.FPS == 5 && h.Brand == "flir" && h.Model == "boson" && h.CameraSerial == 4242 && h.Firmware == "1.2.3", "C11: header carries device and camera description")
		zzAssert(zzLastCam == cptvframe.CameraSpec(cam), "C11: file written for the connected camera's resolution")
		zzAssert(fr.header.BackgroundFrame == nil, "C11: the background frame is not kept after the header is written")
	} else {
		name := fr.writer.Name()
		fr.StopRecording()
		final := recordingFinalName(name)
		rd, err := cptv.NewFileReader(final)
		if err != nil {
			panic(err)
		}
		defer rd.Close()
		defer os.Remove(final)
		zzAssert(rd.MotionConfig() == base+zzThreshLine(th2), "C11: header carries the motion configuration plus exactly this trigger's threshold")
		zzAssert(rd.HasBackgroundFrame(), "C11/C15: header carries the background frame in force at this trigger")
		f := rd.EmptyFrame()
		if err := rd.ReadFrame(f); err != nil {
			panic(err)
		}
		zzAssert(f.Pix[0][0] == 2222, "C11/C15: header carries the background frame in force at this trigger")
		// (go-cptv's writer omits a negative altitude; that is the library's encoding, not this repository's)
		zzAssert(rd.Latitude() == lat && rd.Longitude() == lon && (rd.Altitude() == alt || alt < 0) && rd.Accuracy() == acc && rd.LocTimestamp().Equal(locT), "C11: header carries the configured location")
		zzAssert(rd.DeviceName() == "zzdevice" && rd.DeviceID() == devid && rd.PreviewSecs() == 3 && rd.FPS() == 5 && rd.BrandName() == "flir" && rd.ModelName() == "boson" && rd.SerialNumber() == 4242 && rd.FirmwareVersion() == "1.2.3", "C11: header carries device and camera description")
		zzAssert(rd.ResX() == 2 && rd.ResY() == 2, "C11: file written for the connected camera's resolution")
	}
}

func zzThreshLine(th uint16) string {
	switch th {
	case 2900:
		return "triggeredthresh: 2900\n"
	case 3117:
		return "triggeredthresh: 3117\n"
	case 0:
		return "triggeredthresh: 0\n"
	}
	return "triggeredthresh: 65535\n"
}

// replay entries of this file (registered here so that the file can be left out
// on its own when it does not compile against the tree under check)
func init() {
	zzEntries["ZZ_C11_start"] = ZZ_C11_start
}
