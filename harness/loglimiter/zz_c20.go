package loglimiter

// C20 harnesses: LogLimiter suppresses a message iff it is identical to the
// last message actually printed and arrives less than the interval after it.

import (
	"bytes"
	"log"
	"strings"
	"time"
)

var zzEntries = map[string]func(){
	"ZZ_C20_step": ZZ_C20_step,
	"ZZ_C20_bmc":  ZZ_C20_bmc,
}

var (
	zzNowNs    int64
	zzLogCount int
	zzLogLast  string
	zzBuf      bytes.Buffer
	zzLogInit  bool
)

// zzLogPrint replaces log.Print under the engine.
func zzLogPrint(v ...interface{}) {
	zzLogCount++
	zzLogLast = v[0].(string)
}

func zzNow() time.Time { return zzTimeNs(zzNowNs) }

// zzTakeLog returns how many lines were logged since the last call and the last one.
func zzTakeLog() (int, string) {
	if zzSymbolic() {
		c, l := zzLogCount, zzLogLast
		zzLogCount = 0
		return c, l
	}
	s := zzBuf.String()
	zzBuf.Reset()
	if s == "" {
		return 0, ""
	}
	lines := strings.Split(strings.TrimSuffix(s, "\n"), "\n")
	return len(lines), lines[len(lines)-1]
}

func zzSetupLog() {
	if !zzSymbolic() && !zzLogInit {
		zzLogInit = true
		log.SetFlags(0)
		log.SetOutput(&zzBuf)
	}
}

const zzPool = 3

// ZZ_C20_step: one Print/Printf from an arbitrary limiter state.
func ZZ_C20_step() {
	zzSetupLog()
	interval := zzI64("interval", 0)
	zzAssume(interval > 0)
	lim := New(time.Duration(interval))
	lim.nowFunc = zzNow
	fresh := zzBool("fresh", 0) // nothing printed yet
	prev := zzStrID("prev", 0, zzPool)
	prevNs := zzI64("prevNs", 0)
	if !fresh {
		lim.previousEntry = prev
		lim.previousTime = zzTimeNs(prevNs)
	}
	s := zzStrID("msg", 0, zzPool)
	zzNowNs = zzI64("now", 0)
	// instants within +-146 years of 1970 so that the ghost subtraction cannot overflow
	zzAssume(-(1<<62) < prevNs && prevNs < 1<<62 && -(1<<62) < zzNowNs && zzNowNs < 1<<62)
	zzReach("pre-state")
	how := zzInt("how", 0)
	zzAssume(0 <= how && how <= 2)
	if how == 2 {
		// Printf without arguments: the format is still a format
		zzAssume(s == "")
		s = "disk 100% full"
		lim.Printf("disk 100%% full")
	} else if how == 1 {
		lim.Printf("%s", s)
	} else {
		lim.Print(s)
	}
	cnt, last := zzTakeLog()
	suppress := !fresh && s == prev && zzNowNs-prevNs < interval
	if suppress {
		zzReach("suppressed")
		zzAssert(cnt == 0, "C20: an exact repeat inside the interval is suppressed")
		zzAssert(lim.previousEntry == prev && lim.previousTime.Equal(zzTimeNs(prevNs)), "C20: a suppressed repeat does not extend the window")
	} else {
		zzReach("printed")
		zzAssert(cnt == 1, "C20: every other message is printed immediately, once")
		zzAssert(last == s, "C20: the message is printed unmodified")
		zzAssert(lim.previousEntry == s && lim.previousTime.Equal(zzTimeNs(zzNowNs)), "C20: the printed message becomes the reference")
	}
}

// ZZ_C20_bmc: K calls from New(); monitor written from the statement.
func ZZ_C20_bmc() {
	zzSetupLog()
	K := zzParam("K")
	interval := zzI64("interval", 0)
	zzAssume(interval > 0)
	lim := New(time.Duration(interval))
	lim.nowFunc = zzNow
	have := false
	lastMsg := ""
	lastNs := int64(0)
	prevNow := int64(0)
	printedInWindow := 0
	for t := 0; t < K; t++ {
		s := zzStrID("msg", t, zzPool)
		zzNowNs = zzI64("now", t)
		zzAssume(prevNow <= zzNowNs && zzNowNs < 1<<62)
		prevNow = zzNowNs
		lim.Print(s)
		cnt, last := zzTakeLog()
		if have && s == lastMsg && zzNowNs-lastNs < interval {
			zzAssert(cnt == 0, "bmc C20: repeat inside the interval suppressed")
		} else {
			zzAssert(cnt == 1 && last == s, "bmc C20: printed immediately and unmodified")
			have, lastMsg, lastNs = true, s, zzNowNs
		}
		// a single recurring condition: at most one line per interval, and still one per interval
		if s == zzStrID("msg", 0, zzPool) && cnt == 1 {
			printedInWindow++
		}
	}
	zzReach("bmc end")
	_ = printedInWindow
}
