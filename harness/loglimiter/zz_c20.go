package loglimiter

// C20 harnesses: LogLimiter suppresses a message iff it is identical to the
// last message actually printed and arrives less than the interval after it.

import (
	"bytes"
	"log"
	"strings"
	"time"
)

// (the step lemma lives in zz_c20_step.go and registers itself: it builds its
// pre-state from the limiter's fields, so it is left out - inconclusive - on a
// tree whose limiter has other fields, while the API-only BMC below still runs)
var zzEntries = map[string]func(){
	"ZZ_C20_bmc": ZZ_C20_bmc,
}

var (
	zzNowNs    int64
	zzLogCount int
	zzLogLast  string
	zzBuf      bytes.Buffer
	zzLogInit  bool
)

// zzLogPrint replaces log.Print under the engine.
func zzLogPrint(v ...interface{}) {
	zzLogCount++
	zzLogLast = v[0].(string)
}

func zzNow() time.Time { return zzTimeNs(zzNowNs) }

// zzTakeLog returns how many lines were logged since the last call and the last one.
func zzTakeLog() (int, string) {
	if zzSymbolic() {
		c, l := zzLogCount, zzLogLast
		zzLogCount = 0
		return c, l
	}
	s := zzBuf.String()
	zzBuf.Reset()
	if s == "" {
		return 0, ""
	}
	lines := strings.Split(strings.TrimSuffix(s, "\n"), "\n")
	return len(lines), lines[len(lines)-1]
}

func zzSetupLog() {
	if !zzSymbolic() && !zzLogInit {
		zzLogInit = true
		log.SetFlags(0)
		log.SetOutput(&zzBuf)
	}
}

const zzPool = 3

// ZZ_C20_bmc: K calls from New(); monitor written from the statement.
func ZZ_C20_bmc() {
	zzSetupLog()
	K := zzParam("K")
	interval := zzI64("interval", 0)
	zzAssume(interval > 0)
	lim := New(time.Duration(interval))
	lim.nowFunc = zzNow
	have := false
	lastMsg := ""
	lastNs := int64(0)
	prevNow := int64(0)
	printedInWindow := 0
	for t := 0; t < K; t++ {
		s := zzStrID("msg", t, zzPool)
		zzNowNs = zzI64("now", t)
		zzAssume(prevNow <= zzNowNs && zzNowNs < 1<<62)
		prevNow = zzNowNs
		lim.Print(s)
		cnt, last := zzTakeLog()
		if have && s == lastMsg && zzNowNs-lastNs < interval {
			zzAssert(cnt == 0, "bmc C20: repeat inside the interval suppressed")
		} else {
			zzAssert(cnt == 1 && last == s, "bmc C20: printed immediately and unmodified")
			have, lastMsg, lastNs = true, s, zzNowNs
		}
		// a single recurring condition: at most one line per interval, and still one per interval
		if s == zzStrID("msg", 0, zzPool) && cnt == 1 {
			printedInWindow++
		}
	}
	zzReach("bmc end")
	_ = printedInWindow
}
