package loglimiter

// C20 step lemma (field-dependent part of the C20 harness, see zz_c20.go).

import "time"

func init() { zzEntries["ZZ_C20_step"] = ZZ_C20_step }

// ZZ_C20_step: one Print/Printf from an arbitrary limiter state.
func ZZ_C20_step() {
	zzSetupLog()
	interval := zzI64("interval", 0)
	zzAssume(interval > 0)
	lim := New(time.Duration(interval))
	lim.nowFunc = zzNow
	fresh := zzBool("fresh", 0) // nothing printed yet
	prev := zzStrID("prev", 0, zzPool)
	prevNs := zzI64("prevNs", 0)
	if !fresh {
		lim.previousEntry = prev
		lim.previousTime = zzTimeNs(prevNs)
	}
	s := zzStrID("msg", 0, zzPool)
	zzNowNs = zzI64("now", 0)
	// instants within +-146 years of 1970 so that the ghost subtraction cannot overflow
	zzAssume(-(1<<62) < prevNs && prevNs < 1<<62 && -(1<<62) < zzNowNs && zzNowNs < 1<<62)
	zzReach("pre-state")
	how := zzInt("how", 0)
	zzAssume(0 <= how && how <= 2)
	if how == 2 {
		// Printf without arguments: the format is still a format
		zzAssume(s == "")
		s = "disk 100% full"
		lim.Printf("disk 100%% full")
	} else if how == 1 {
		lim.Printf("%s", s)
	} else {
		lim.Print(s)
	}
	cnt, last := zzTakeLog()
	suppress := !fresh && s == prev && zzNowNs-prevNs < interval
	if suppress {
		zzReach("suppressed")
		zzAssert(cnt == 0, "C20: an exact repeat inside the interval is suppressed")
		zzAssert(lim.previousEntry == prev && lim.previousTime.Equal(zzTimeNs(prevNs)), "C20: a suppressed repeat does not extend the window")
	} else {
		zzReach("printed")
		zzAssert(cnt == 1, "C20: every other message is printed immediately, once")
		zzAssert(last == s, "C20: the message is printed unmodified")
		zzAssert(lim.previousEntry == s && lim.previousTime.Equal(zzTimeNs(zzNowNs)), "C20: the printed message becomes the reference")
	}
}

