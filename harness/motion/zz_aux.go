package motion

// C12 / C17 harnesses: the three sinks (motion, continuous, test) under
// arbitrary storage faults (C12) and fault-free tiling / 21-frame test
// recordings (C17).

import (
	"time"

	config "github.com/TheCacophonyProject/go-config"
	"github.com/TheCacophonyProject/thermal-recorder/loglimiter"
	"github.com/TheCacophonyProject/thermal-recorder/recorder"
	"github.com/TheCacophonyProject/window"
)

func zzSetFaults(s *zzSink, tag string, t int, on bool) {
	s.starts, s.startOKs, s.stops, s.writes, s.checks = 0, 0, 0, 0, 0
	if !on {
		s.failStart, s.failCheck, s.failWrite, s.failStop, s.failWriteAt = false, false, false, false, 0
		return
	}
	s.failStart = zzBool(tag+"failStart", t)
	s.failCheck = zzBool(tag+"failCheck", t)
	s.failStop = zzBool(tag+"failStop", t)
	s.failWrite = false
	s.failWriteAt = zzInt(tag+"failWriteAt", t)
	zzAssume(0 <= s.failWriteAt && s.failWriteAt <= 4)
}

// ZZ_AUX_bmc: K events over {valid frame, bad frame, reset, test-recording
// request} from the real constructor, with (FAULTS=1) or without storage faults.
func ZZ_AUX_bmc() {
	fps, minS, maxS, prevS, T, K := zzParam("fps"), zzParam("minS"), zzParam("maxS"), zzParam("prevS"), zzParam("T"), zzParam("K")
	CR, FAULTS, BAD := zzParam("CR") == 1, zzParam("FAULTS") == 1, zzParam("BAD") == 1
	maxF := maxS * fps
	h := &zzMP{}
	msink, csink, ssink := &zzSink{last: -1}, &zzSink{last: -1}, &zzSink{last: -1}
	mc := zzMotionConf(T)
	rc := &recorder.RecorderConfig{MinSecs: minS, MaxSecs: maxS, PreviewSecs: prevS, ConstantRecorder: CR}
	if !zzSymbolic() {
		w, err := window.New("10:00", "11:00", 0, 0)
		if err != nil {
			panic(err)
		}
		w.Now = zzWindowNow
		rc.Window = *w
	}
	// as cmd/thermal-recorder/main.go wires it: a typed nil pointer when the
	// continuous recorder is off
	var crp *zzSink
	if CR {
		crp = csink
	}
	var cr recorder.Recorder = crp
	mp := NewMotionProcessor(h.parse, &mc, rc, &config.Location{}, nil, msink, zzCam{1, 1, fps}, cr, ssink)
	raw := make([]byte, 2)
	n := 0         // accepted frames so far
	r := 0         // motion run (ghost of C04)
	snapCount := 0 // frames in the current test recording
	snapActive := false
	pending := false
	for t := 0; t < K; t++ {
		ev := zzInt("ev", t)
		zzAssume(0 <= ev && ev < 4)
		if !FAULTS && !BAD {
			zzAssume(ev != 1) // C17 quantifies over streams of valid frames
		}
		m, w := zzBool("m", t), zzBool("w", t)
		zzMotionBit, zzGateOpen, zzEvIdx = m, w, t
		zzSetFaults(msink, "m.", t, FAULTS)
		zzSetFaults(csink, "c.", t, FAULTS)
		zzSetFaults(ssink, "s.", t, FAULTS)
		if !FAULTS {
			// the window and disk gates stay arbitrary without faults
			msink.failCheck = zzBool("m.failCheck", t)
		}
		mOpen, cOpen, sOpen := msink.open, csink.open, ssink.open
		switch ev {
		case 0:
			h.bad, h.seq = false, n
			err := mp.Process(raw)
			zzAssert(err == nil, "bmc: valid frame accepted")
			// C12 recovery: the start condition of C04 is unaffected by earlier faults
			startCond := !mOpen && m && r+1 >= T && w && !msink.failCheck && !msink.failStart
			if startCond {
				zzAssert(msink.startOKs == 1, "bmc C04/C12: after any failure later motion is recorded normally (start iff C04's condition)")
			} else {
				zzAssert(msink.startOKs == 0, "bmc C04/C12: no spurious start after failures")
			}
			if msink.stops > 0 {
				r = 0
			} else if m {
				r++
			} else {
				r = 0
			}
			if !FAULTS {
				// ---- C17
				if CR {
					zzAssert(csink.writes == 1 && csink.last == n && !csink.orderViol, "bmc C13/C17: every valid frame lands in the continuous recording exactly once, in order (also right after a bad frame)")
					if cOpen {
						zzAssert(csink.starts == 0, "bmc C17: no new continuous file while one is open")
					} else {
						zzAssert(csink.startOKs == 1, "bmc C13/C17: a new continuous file is properly started when none is open")
					}
					if csink.stops == 1 {
						zzAssert(csink.sinceStart == maxF+1 && !csink.open, "bmc C17: continuous files hold max-secs*fps+1 frames")
					} else {
						zzAssert(csink.sinceStart <= maxF && csink.open, "bmc C17: continuous file stays open until it holds max-secs*fps+1 frames")
					}
				} else {
					zzAssert(csink.writes == 0 && csink.starts == 0, "bmc C17: continuous recorder off")
				}
				if pending && !snapActive {
					zzAssert(ssink.startOKs == 1 && ssink.firstSeq == n, "bmc C17: test recording starts with the next processed frame")
					snapActive, snapCount, pending = true, 0, false
				} else {
					zzAssert(ssink.starts == 0, "bmc C17: no test recording without a request")
				}
				if snapActive {
					snapCount++
					zzAssert(ssink.writes == 1 && ssink.last == n && !ssink.orderViol, "bmc C17: test recording receives consecutive frames")
					if snapCount == 21 {
						zzAssert(ssink.stops == 1 && !ssink.open, "bmc C17: test recording ends after exactly 21 frames")
						snapActive = false
					} else {
						zzAssert(ssink.stops == 0 && ssink.open, "bmc C17: test recording continues up to 21 frames")
					}
				} else {
					zzAssert(ssink.writes == 0, "bmc C17: no test frames outside a test recording")
				}
			}
			n++
		case 1:
			h.bad = true
			err := mp.Process(raw)
			zzAssert(err != nil, "bmc C13: bad frame reported")
			zzAssert(msink.writes == 0 && csink.writes == 0 && ssink.writes == 0, "bmc C13: bad frame written to no recording")
			if mOpen {
				zzAssert(msink.stops == 1 && !msink.open, "bmc C13: bad frame closes the motion recording")
				r = 0
			}
		case 2:
			mp.Reset(zzCam{1, 1, fps})
			if mOpen {
				r = 0
			}
			zzAssert(csink.stops == 0 && csink.starts == 0 && ssink.stops == 0, "bmc C17: a camera reset does not disturb the continuous or test recording")
		case 3:
			if !FAULTS {
				zzAssume(!snapActive && !pending) // C17: non-overlapping requests
			}
			mp.StartSnapshot = true
			pending = true
		}
		_, _ = cOpen, sOpen
		zzAssert(!msink.viol, "bmc C04/C12: motion sink sees writes only inside start..stop, no start while open")
		zzAssert(!csink.viol, "bmc C12: continuous sink sees writes only inside start..stop, no start while open")
		zzAssert(!ssink.viol, "bmc C12: test sink sees writes only inside start..stop, no start while open")
	}
	zzReach("bmc end")
}

// ZZ_AUX_step: one event from an arbitrary state satisfying Inv_MP extended
// with the continuous/test recorder invariant (the constant 21 makes a BMC of
// a whole test recording expensive; the step lemma covers it inductively).
func ZZ_AUX_step() {
	N := zzParam("N")
	CR, FAULTS := zzParam("CR") == 1, zzParam("FAULTS") == 1
	h := zzMkMP(N)
	mp, msink, a := h.mp, h.sink, h.a
	n := a.q*N + a.c
	csink, ssink := &zzSink{}, &zzSink{}
	crF, snF := zzInt("crFrames", 0), zzInt("snapFrames", 0)
	snapRec, pending := zzBool("snapRec", 0), zzBool("pending", 0)
	zzAssume(0 <= crF && crF <= h.maxF)
	if CR {
		mp.constantRecorder, mp.constantRecording = csink, true
		csink.open = crF > 0
		csink.sinceStart = crF
		csink.last = n - 1
		mp.crFrames = crF
	} else {
		zzAssume(crF == 0)
	}
	mp.snapshotRecorder = ssink
	ssink.last = n - 1
	if snapRec {
		zzAssume(1 <= snF && snF <= 20)
		ssink.open = true
	} else if FAULTS {
		zzAssume(0 <= snF && snF < 1<<40)
	} else {
		zzAssume(snF == 0)
	}
	ssink.sinceStart = snF
	mp.SnapshotRecording, mp.snapshotFrames, mp.StartSnapshot = snapRec, snF, pending
	if !FAULTS {
		zzAssume(!(pending && snapRec)) // C17: non-overlapping requests
	}
	zzReach("pre-state")
	ev := zzInt("ev", 0)
	zzAssume(0 <= ev && ev < 3)
	if !FAULTS {
		zzAssume(ev != 1)
	}
	m, w := zzBool("m", 0), zzBool("w", 0)
	zzMotionBit, zzGateOpen = m, w
	zzSetFaults(msink, "m.", 0, FAULTS)
	zzSetFaults(csink, "c.", 0, FAULTS)
	zzSetFaults(ssink, "s.", 0, FAULTS)
	if !FAULTS {
		msink.failCheck, msink.failStart = zzBool("m.failCheck", 0), zzBool("m.failStart", 0)
	}
	raw := make([]byte, 2)
	switch ev {
	case 0:
		h.bad, h.seq = false, n
		err := mp.Process(raw)
		zzAssert(err == nil, "valid frame accepted")
		if !FAULTS {
			if CR {
				zzAssert(csink.writes == 1 && csink.last == n && !csink.orderViol, "C17: every frame lands in the continuous recording exactly once, in order")
				zzAssert((csink.startOKs == 1) == (crF == 0) && csink.starts == csink.startOKs, "C17: a continuous file starts exactly when none is open")
				if crF+1 > h.maxF {
					zzReach("continuous file completed")
					zzAssert(csink.stops == 1 && csink.sinceStart == h.maxF+1 && !csink.open && mp.crFrames == 0, "C17: continuous files hold max-secs*fps+1 frames")
				} else {
					zzAssert(csink.stops == 0 && csink.open && mp.crFrames == crF+1 && csink.sinceStart == crF+1, "C17: continuous file stays open until it holds max-secs*fps+1 frames")
				}
			} else {
				zzAssert(csink.writes == 0 && csink.starts == 0 && csink.stops == 0, "C17: continuous recorder off")
			}
			active := snapRec || pending
			if pending {
				zzReach("test recording requested")
				zzAssert(ssink.startOKs == 1 && ssink.firstSeq == n && !mp.StartSnapshot, "C17: test recording starts with the next processed frame")
			} else {
				zzAssert(ssink.starts == 0, "C17: no test recording without a request")
			}
			if active {
				cnt := 1
				if snapRec {
					cnt = snF + 1
				}
				zzAssert(ssink.writes == 1 && ssink.last == n && !ssink.orderViol, "C17: test recording receives consecutive frames")
				if cnt == 21 {
					zzReach("test recording completed")
					zzAssert(ssink.stops == 1 && !ssink.open && !mp.SnapshotRecording && mp.snapshotFrames == 0 && ssink.sinceStart == 21, "C17: test recording ends after exactly 21 frames")
				} else {
					zzAssert(ssink.stops == 0 && ssink.open && mp.SnapshotRecording && mp.snapshotFrames == cnt && ssink.sinceStart == cnt, "C17: test recording continues up to 21 frames")
				}
			} else {
				zzAssert(ssink.writes == 0 && ssink.stops == 0 && !mp.SnapshotRecording, "C17: no test frames outside a test recording")
			}
		}
	case 1:
		h.bad = true
		err := mp.Process(raw)
		zzAssert(err != nil, "C13: bad frame reported")
		zzAssert(msink.writes == 0 && csink.writes == 0 && ssink.writes == 0, "C13: bad frame written to no recording")
	case 2:
		mp.Reset(zzCam{1, 1, 1})
		zzAssert(csink.stops == 0 && csink.starts == 0 && csink.writes == 0 && ssink.stops == 0 && ssink.writes == 0, "C17: a camera reset does not disturb the continuous or test recording")
		dd := mp.motionDetector
		zzAssert(dd.backgroundFrames == 0 && dd.flooredFrames.currentIndex == 0 && dd.flooredFrames.oldest == 0 && !dd.flooredFrames.bufferFull, "C09/C12/C15: a camera reset always resets the detector, also when closing the recording fails")
	}
	zzAssert(!msink.viol, "C04/C12: motion sink sees writes only inside start..stop, no start while open")
	zzAssert(!csink.viol, "C12: continuous sink sees writes only inside start..stop, no start while open")
	zzAssert(!ssink.viol, "C12: test sink sees writes only inside start..stop, no start while open")
	// a motion recording always remains bounded: it is closed as soon as its frame
	// count reaches the requested length, also after failed writes
	if mp.isRecording {
		zzAssert(mp.framesWritten < mp.writeUntil && mp.writeUntil <= h.maxF, "C03/C12: an open motion recording is always due to stop (frame count below the requested length, itself capped by max-secs), also after storage failures")
	}
	// extended invariant of the successor
	zzAssert(msink.open == mp.isRecording, "Inv: motion sink open iff isRecording")
	if CR {
		zzAssert(csink.open == (mp.crFrames > 0) && 0 <= mp.crFrames && mp.crFrames <= h.maxF, "Inv: continuous sink open iff crFrames > 0")
	}
	zzAssert(ssink.open == mp.SnapshotRecording, "Inv: test sink open iff SnapshotRecording")
	if mp.SnapshotRecording {
		zzAssert(1 <= mp.snapshotFrames && mp.snapshotFrames <= 20, "Inv: test recording frame counter")
	}
}

var _ = loglimiter.New
var _ = time.Minute

// replay entries of this file (registered here so that the file can be left out
// on its own when it does not compile against the tree under check)
func init() {
	zzEntries["ZZ_AUX_bmc"] = ZZ_AUX_bmc
	zzEntries["ZZ_AUX_step"] = ZZ_AUX_step
}
