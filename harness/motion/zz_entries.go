package motion

var zzEntries = map[string]func(){
	"ZZ_C19_init":    ZZ_C19_init,
	"ZZ_C19_ops":     ZZ_C19_ops,
	"ZZ_C19_observe": ZZ_C19_observe,
	"ZZ_C19_bmc":     ZZ_C19_bmc,
	"ZZ_MP_step":     ZZ_MP_step,
	"ZZ_MP_bmc":      ZZ_MP_bmc,
	"ZZ_AUX_bmc":     ZZ_AUX_bmc,
	"ZZ_AUX_step":    ZZ_AUX_step,
	"ZZ_C07_bmc":     ZZ_C07_bmc,
	"ZZ_C08_bmc":     ZZ_C08_bmc,
	"ZZ_C09_bmc":     ZZ_C09_bmc,
	"ZZ_C15_update":  ZZ_C15_update,
	"ZZ_C15_clamp":   ZZ_C15_clamp,
	"ZZ_C15_detect":  ZZ_C15_detect,
	"ZZ_C15_sites":   ZZ_C15_sites,
	"ZZ_C05_comp":    ZZ_C05_comp,
}
