package motion

// zzEntries: replay entry points by name; each harness file registers its own in an init().
var zzEntries = map[string]func(){}
