package motion

// MotionProcessor harnesses for C01-C04 (and the shared builder used by
// C12/C13/C17): one inductive step from an arbitrary invariant state, and a
// BMC from the real constructor with a monitor written from the statements.

import (
	"time"

	config "github.com/TheCacophonyProject/go-config"
	"github.com/TheCacophonyProject/go-cptv/cptvframe"
	"github.com/TheCacophonyProject/thermal-recorder/loglimiter"
	"github.com/TheCacophonyProject/thermal-recorder/recorder"
	"github.com/TheCacophonyProject/window"
)

type zzError struct{ what string }

func (e *zzError) Error() string { return e.what }

// zzSink is a monitored recorder.Recorder.
type zzSink struct {
	open        bool
	fresh       bool // no frame written since the last successful start
	last        int  // sequence number of the last frame written (ghost L)
	firstSeq    int
	starts      int
	startOKs    int
	stops       int
	writes      int
	checks      int
	viol        bool // write outside start..stop, or start while open
	stopClosed  bool // stop while closed (redundant; not forbidden by any property)
	orderViol   bool // gap, repeat or reordering
	sinceStart  int  // frames written since the last successful start
	failStart   bool
	failCheck   bool
	failWrite   bool // every write of this step fails
	failWriteAt int  // the k-th write of this step fails (0 = none)
	failStop    bool
	bg          *cptvframe.Frame
	thresh      uint16
	orderLabel  string // when set, every write is checked against the previous one under this label
}

func (s *zzSink) StartRecording(bg *cptvframe.Frame, th uint16) error {
	s.starts++
	if s.open {
		s.viol = true
	}
	if s.failStart {
		return &zzError{"start"}
	}
	s.open = true
	s.fresh = true
	s.sinceStart = 0
	s.startOKs++
	s.bg = bg
	s.thresh = th
	return nil
}

func (s *zzSink) WriteFrame(f *cptvframe.Frame) error {
	s.writes++
	if !s.open {
		s.viol = true
	}
	seq := f.Status.FrameCount
	if s.orderLabel != "" {
		// per-write obligation (keeps each query small); the accumulated flag below
		// then follows trivially
		if s.fresh {
			zzAssert(seq > s.last, s.orderLabel)
		} else {
			zzAssert(seq == s.last+1, s.orderLabel)
		}
	}
	if s.fresh {
		s.firstSeq = seq
		s.fresh = false
		if seq <= s.last {
			s.orderViol = true
		}
	} else if seq != s.last+1 {
		s.orderViol = true
	}
	s.last = seq
	s.sinceStart++
	if s.failWrite || s.writes == s.failWriteAt {
		return &zzError{"write"}
	}
	return nil
}

func (s *zzSink) StopRecording() error {
	s.stops++
	if !s.open {
		s.stopClosed = true
	}
	s.open = false
	if s.failStop {
		return &zzError{"stop"}
	}
	return nil
}

func (s *zzSink) CheckCanRecord() error {
	s.checks++
	if s.failCheck {
		return &zzError{"check"}
	}
	return nil
}

type zzListener struct{ motion, started, ended int }

func (l *zzListener) MotionDetected()   { l.motion++ }
func (l *zzListener) RecordingStarted() { l.started++ }
func (l *zzListener) RecordingEnded()   { l.ended++ }

// ghost inputs of the current step, read by the stubs
var (
	zzMotionBit   bool
	zzGateOpen    bool
	zzDetectCalls int
)

// zzStubDetect replaces (*motionDetector).Detect: the properties quantify over
// every motion bit-string.
// Like the real Detect with a dynamic threshold it may move the threshold
// (arbitrary new value per call): whatever is handed to the recorder at a
// trigger must be read after the trigger frame was analysed.
func zzStubDetect(d *motionDetector, f *cptvframe.Frame) bool {
	zzDetectCalls++
	d.tempThresh = zzU16("det.thresh", zzEvIdx)
	return zzMotionBit
}

// zzEvIdx: index of the current event (set by the harness loops; concrete)
var zzEvIdx int

// zzStubActive replaces (*window.Window).Active in the engine; natively the
// window's clock is hooked instead (zzWindowNow).
func zzStubActive(w *window.Window) bool { return zzGateOpen }

func zzWindowNow() time.Time {
	if zzGateOpen {
		return time.Date(2020, 1, 1, 10, 30, 0, 0, time.UTC)
	}
	return time.Date(2020, 1, 1, 12, 0, 0, 0, time.UTC)
}

type zzMP struct {
	N    int
	mp   *MotionProcessor
	sink *zzSink
	lis  *zzListener
	a    zzAbs
	// parser inputs
	bad bool
	seq int
	// abstract / ghost pre-state
	isRec       bool
	fw, wu      int
	trig        int
	minF, maxF  int
	T           int
	mIdx        int
	parserCalls int
	csink       *zzSink
	t           int // current event index (nondet naming)
}

func (h *zzMP) parse(raw []byte, f *cptvframe.Frame, edge int) error {
	h.parserCalls++
	if h.bad {
		f.Status.FrameCount = -7 - zzInt("scribble", h.t)
		f.Pix[0][0] = zzU16("scribblepix", h.t)
		return &zzError{"bad frame"}
	}
	f.Status.FrameCount = h.seq
	f.Pix[0][0] = zzU16("framepix", h.t)
	return nil
}

func zzMotionConf(T int) config.ThermalMotion {
	return config.ThermalMotion{TempThresh: 3000, DeltaThresh: 50, CountThresh: 1, FrameCompareGap: 1, TriggerFrames: T, UseOneDiffOnly: true}
}

// zzMkMP builds a MotionProcessor in an arbitrary state satisfying Inv_MP.
func zzMkMP(N int) *zzMP {
	h := &zzMP{N: N}
	h.a = zzNondetAbs("")
	zzAbsAssume(N, h.a)
	a := h.a
	n := a.q*N + a.c
	mark := a.qm*N + a.cm
	h.isRec = zzBool("isRec", 0)
	h.fw, h.wu, h.trig = zzInt("fw", 0), zzInt("wu", 0), zzInt("trig", 0)
	h.minF, h.maxF, h.T, h.mIdx = zzInt("minF", 0), zzInt("maxF", 0), zzInt("T", 0), zzInt("mIdx", 0)
	zzAssume(0 <= h.minF && h.minF <= h.maxF && h.maxF < 1<<31)
	zzAssume(0 <= h.T && h.T < 1<<31)
	zzAssume(0 <= h.trig && h.trig < 1<<40)
	h.sink = &zzSink{orderLabel: "C01/C13: frames written consecutively, in order, none repeated (and never a rejected frame)"}
	if h.isRec {
		zzAssume(1 <= h.mIdx && h.mIdx <= h.fw && h.fw < h.wu && h.wu <= h.maxF)
		zzAssume(h.wu == min(h.mIdx-1+h.minF, h.maxF))
		zzAssume(n >= h.fw)
		h.sink.open = true
		h.sink.last = n - 1
	} else {
		zzAssume(h.fw == 0 && h.wu == 0)
		h.sink.last = mark - 1
	}
	fl := zzMkLoop(N, a, "")
	// the current slot is about to be overwritten by the parser: junk
	fl.frames[a.c].Status.FrameCount = -3 - zzInt("curjunk", 0)
	h.lis = &zzListener{}
	mc := zzMotionConf(h.T)
	h.mp = &MotionProcessor{
		minFrames:      h.minF,
		maxFrames:      h.maxF,
		framesWritten:  h.fw,
		motionDetector: NewMotionDetector(mc, 0, zzCam{1, 1, 1}),
		frameLoop:      fl,
		isRecording:    h.isRec,
		writeUntil:     h.wu,
		listener:       h.lis,
		triggerFrames:  h.T,
		triggered:      h.trig,
		recorder:       h.sink,
		log:            loglimiter.New(time.Minute),
		conf:           &recorder.RecorderConfig{},
	}
	h.mp.parseFrame = h.parse
	if zzParam("CR") == 1 {
		// the continuous recorder runs alongside (any phase of its current file): the
		// motion recording's behaviour must not depend on it
		h.csink = &zzSink{}
		crF := zzInt("mp.crFrames", 0)
		zzAssume(0 <= crF && crF <= h.maxF)
		h.csink.open = crF > 0
		h.csink.last = n - 1
		h.mp.constantRecorder, h.mp.constantRecording, h.mp.crFrames = h.csink, true, crF
	}
	// the detector has seen frames already (so that a reset has something to reset)
	det := h.mp.motionDetector
	det.backgroundFrames, det.count = 3, 7
	det.flooredFrames.currentIndex, det.flooredFrames.oldest, det.flooredFrames.bufferFull = 1, 1, true
	if !zzSymbolic() {
		w, err := window.New("10:00", "11:00", 0, 0)
		if err != nil {
			panic(err)
		}
		w.Now = zzWindowNow
		h.mp.window = *w
	}
	return h
}

// zzInvExceptCurrent: ring invariant where the current slot holds stale data.
func zzInvExceptCurrent(fl *FrameLoop, N int, a zzAbs) bool {
	ok := fl.size == N && len(fl.frames) == N && len(fl.orderedFrames) == N
	ok = ok && fl.currentIndex == a.c
	ok = ok && fl.bufferFull == (a.q >= 1)
	if zzRetained(a.q, a.c, a.qm, a.cm) {
		ok = ok && fl.oldest == a.cm
	} else {
		ok = ok && fl.oldest == NO_OLDEST_SET
	}
	for i := 0; i < N; i++ {
		s := zzSeq(N, a.q, a.c, i)
		if s >= 0 && i != a.c {
			ok = ok && fl.frames[i].Status.FrameCount == s
		}
	}
	return ok
}

func zzNext(N int, a zzAbs) zzAbs {
	b := a
	if a.c+1 < N {
		b.c = a.c + 1
	} else {
		b.q, b.c = a.q+1, 0
	}
	return b
}

// ZZ_MP_step: STEPS (1 or 2) events from an arbitrary Inv_MP state; C01-C04
// assertion groups after each event. With STEPS=2 the second event starts from
// the real successor of an invariant state, so a defect that corrupts state
// in one event and manifests in the next is caught at property level
// (2-induction) even when the representation invariant is no longer preserved.
func ZZ_MP_step() {
	N := zzParam("N")
	h := zzMkMP(N)
	zzReach("pre-state")
	steps := zzParam("STEPS")
	for t := 0; t < steps; t++ {
		zzMPEvent(h, t)
	}
}

// zzMPEvent executes one event on h.mp, checks it against the ghost in h and
// advances the ghost to the successor state.
func zzMPEvent(h *zzMP, t int) {
	N := h.N
	h.t = t
	mp, sink, a := h.mp, h.sink, h.a
	n := a.q*N + a.c
	mark := a.qm*N + a.cm
	ret := zzRetained(a.q, a.c, a.qm, a.cm)
	sink.starts, sink.startOKs, sink.stops, sink.writes, sink.checks = 0, 0, 0, 0, 0
	h.lis.motion, h.lis.started, h.lis.ended = 0, 0, 0
	zzDetectCalls = 0
	lastPre := sink.last
	ev := zzInt("ev", t)
	zzAssume(0 <= ev && ev < 3)
	m := zzBool("m", t)
	w := zzBool("w", t)
	d := zzBool("d", t)
	s := zzBool("s", t)
	zzMotionBit, zzGateOpen, zzEvIdx = m, w, t
	sink.failCheck, sink.failStart = !d, !s
	raw := make([]byte, 2)

	if ev == 0 {
		// ---- a valid frame
		h.bad, h.seq = false, n
		err := mp.Process(raw)
		zzAssert(err == nil, "valid frame: Process returns nil")
		zzAssert(zzDetectCalls == 1, "valid frame: detector consulted once")
		startCond := !h.isRec && m && h.trig+1 >= h.T && w && d && s
		recNow := h.isRec || startCond

		// C04
		if startCond {
			zzReach("recording started")
			zzAssert(sink.startOKs == 1 && sink.starts == 1, "C04: starts when motion persisted, window open, storage ok")
			zzAssert(sink.bg == mp.motionDetector.background && sink.thresh == mp.motionDetector.tempThresh, "C15: start passes the detector's background and threshold")
		} else {
			zzAssert(sink.startOKs == 0, "C04: no recording starts unless all conditions hold")
		}
		if !m || h.isRec || h.trig+1 < h.T {
			zzAssert(sink.starts == 0 && sink.checks == 0, "C04: no start attempt without a completed motion run or while recording")
		}
		if !w {
			zzAssert(sink.starts == 0 && sink.checks == 0, "C04: no start attempt outside the window")
		}
		if !d {
			zzAssert(sink.starts == 0, "C04: no start attempt when the disk check fails")
		}
		if !h.isRec && m && h.trig+1 >= h.T && !(w && d && s) {
			zzReach("start refused")
			zzAssert(!mp.isRecording && mp.triggered == h.trig+1, "C04: a refused start keeps the run so the next motion frame retries")
		}

		// C01 / C02
		zzAssert(!sink.viol, "sink protocol respected")
		zzAssert(!sink.orderViol, "C01/C13: frames written consecutively, in order, none repeated (and never a rejected frame)")
		if startCond {
			first := n - N + 1
			if first < 0 {
				first = 0
			}
			zzAssert(sink.firstSeq > lastPre, "C01: no frame is written into two recordings")
			if ret {
				first = mark
				zzReach("re-trigger within pre-trigger reach")
				zzAssert(sink.firstSeq == lastPre+1, "C01: back-to-back recordings tile the stream")
			}
			zzAssert(sink.firstSeq == first, "C02: recording starts a full pre-trigger buffer before the trigger (or at the earliest available frame)")
			zzAssert(sink.writes == n-sink.firstSeq+1, "C01/C02: pre-trigger frames and the trigger frame are all written")
			zzAssert(sink.last == n, "C01: the trigger frame is written last")
		} else if h.isRec {
			zzAssert(sink.writes == 1 && sink.last == n, "C01: a recording in progress receives exactly the new frame")
		} else {
			zzAssert(sink.writes == 0, "C01: nothing is written outside a recording")
		}

		// C03
		fw2 := 1
		mIdx2 := 1
		if h.isRec {
			fw2 = h.fw + 1
			mIdx2 = h.mIdx
			if m {
				mIdx2 = h.fw + 1
			}
		}
		target := min(mIdx2-1+h.minF, h.maxF)
		shouldStop := recNow && fw2 >= target
		if recNow {
			zzAssert(fw2 <= h.maxF || fw2 == 1, "C03: never more than max-secs*fps frames after the trigger")
		}
		if shouldStop {
			zzReach("recording stopped")
			zzAssert(sink.stops == 1 && !sink.open, "C03: stops exactly when min-secs past the last motion or max-secs is reached")
		} else {
			zzAssert(sink.stops == 0, "C03: does not stop before the limit")
			if recNow {
				zzReach("recording continues")
			}
		}

		// Inv_MP of the successor
		b := zzNext(N, a)
		if shouldStop {
			b.qm, b.cm = b.q, b.c
		}
		zzAssert(zzInvExceptCurrent(mp.frameLoop, N, b), "Inv: ring state of the successor")
		zzAssert(mp.frameLoop.frames[a.c].Status.FrameCount == n, "Inv: accepted frame is buffered in its slot")
		isRec2 := recNow && !shouldStop
		zzAssert(mp.isRecording == isRec2 && sink.open == isRec2, "Inv: isRecording")
		if isRec2 {
			zzAssert(mp.framesWritten == fw2 && mp.writeUntil == target, "Inv: counters while recording")
			zzAssert(1 <= mIdx2 && mIdx2 <= fw2 && fw2 < target && target <= h.maxF, "Inv: counter ordering while recording")
			zzAssert(sink.last == n && !sink.fresh, "Inv: last written frame while recording")
		} else {
			zzAssert(mp.framesWritten == 0 && mp.writeUntil == 0, "Inv: counters when idle")
			mark2 := mark
			if shouldStop {
				mark2 = n + 1
			}
			zzAssert(sink.last == mark2-1, "Inv: everything written precedes the mark")
		}
		trig2 := 0
		if m && !shouldStop {
			trig2 = h.trig + 1
		}
		zzAssert(mp.triggered == trig2, "Inv: motion run counter")
		lis := h.lis
		zzAssert(lis.started == sink.startOKs && lis.ended == sink.stops, "listener notified of start and end")
		zzAssert((lis.motion == 1) == m, "listener notified of motion")
		// successor ghost
		h.a, h.isRec, h.trig = b, isRec2, trig2
		if isRec2 {
			h.fw, h.wu, h.mIdx = fw2, target, mIdx2
		} else {
			h.fw, h.wu = 0, 0
		}
	} else {
		// ---- a bad frame (ev 1) or a camera reset (ev 2)
		if ev == 1 {
			h.bad = true
			err := mp.Process(raw)
			zzReach("bad frame")
			zzAssert(err != nil, "C13: bad frame is reported")
		} else {
			mp.Reset(zzCam{1, 1, 1})
			zzReach("camera reset")
		}
		zzAssert(zzDetectCalls == 0, "C13: bad frame / reset never reaches the detector")
		zzAssert(!sink.viol && !sink.orderViol, "sink protocol respected")
		zzAssert(sink.writes == 0 && sink.starts == 0, "C13: nothing written or started on a bad frame / reset")
		if h.isRec {
			zzReach("recording ended by bad frame or reset")
			zzAssert(sink.stops == 1 && !sink.open, "C13: recording in progress is closed")
		} else {
			zzAssert(sink.stops == 0, "no stop when idle")
		}
		b := a
		if h.isRec {
			b.qm, b.cm = a.q, a.c
		}
		zzAssert(zzInvExceptCurrent(mp.frameLoop, N, b), "Inv: bad frame / reset does not advance the ring")
		if ev == 1 {
			zzAssert(mp.frameLoop.currentIndex == a.c && mp.frameLoop.bufferFull == (a.q >= 1), "C13: a bad frame never enters the pre-trigger buffer (its slot is the one the next frame overwrites)")
		} else {
			d := mp.motionDetector
			zzAssert(d.backgroundFrames == 0 && d.flooredFrames.currentIndex == 0 && d.flooredFrames.oldest == 0 && !d.flooredFrames.bufferFull, "C09/C15: a camera reset always resets the detector's history and background seeding")
		}
		zzAssert(!mp.isRecording && mp.framesWritten == 0 && mp.writeUntil == 0, "Inv: idle after bad frame / reset")
		trig2 := h.trig
		if h.isRec {
			trig2 = 0
			zzAssert(sink.last == n-1, "Inv: everything written precedes the mark")
		} else {
			zzAssert(sink.last == mark-1, "Inv: everything written precedes the mark")
		}
		zzAssert(mp.triggered == trig2, "Inv: motion run counter")
		h.a, h.isRec, h.trig, h.fw, h.wu = b, false, trig2, 0, 0
	}
}

// ZZ_MP_bmc: K arbitrary events from the real constructor; the monitor below
// is written from the statements of C01-C04 and uses no representation
// invariant (it sees only the sink's calls and the ghost history).
func ZZ_MP_bmc() {
	fps, minS, maxS, prevS, T, K := zzParam("fps"), zzParam("minS"), zzParam("maxS"), zzParam("prevS"), zzParam("T"), zzParam("K")
	N := prevS*fps + T
	minF, maxF := minS*fps, maxS*fps
	h := &zzMP{N: N}
	sink := &zzSink{last: -1}
	h.sink = sink
	mc := zzMotionConf(T)
	rc := &recorder.RecorderConfig{MinSecs: minS, MaxSecs: maxS, PreviewSecs: prevS}
	if !zzSymbolic() {
		w, err := window.New("10:00", "11:00", 0, 0)
		if err != nil {
			panic(err)
		}
		w.Now = zzWindowNow
		rc.Window = *w
	}
	mp := NewMotionProcessor(h.parse, &mc, rc, &config.Location{}, nil, sink, zzCam{1, 1, fps}, nil, nil)
	raw := make([]byte, 2)

	// ghost history
	n := 0         // accepted frames so far = sequence number of the next frame
	E := 0         // first frame accepted after the previous recording ended
	r := 0         // motion run length
	rec := false   // a recording is in progress
	cnt := 0       // frames since (and including) the trigger frame
	lastM := 0     // index (trigger = 1) of the latest motion frame
	lastStop := -1 // last frame of the previous recording
	for t := 0; t < K; t++ {
		ev := zzInt("ev", t)
		zzAssume(0 <= ev && ev < 3)
		m, w, d, s := zzBool("m", t), zzBool("w", t), zzBool("d", t), zzBool("s", t)
		zzMotionBit, zzGateOpen, zzEvIdx = m, w, t
		sink.failCheck, sink.failStart = !d, !s
		sink.starts, sink.startOKs, sink.stops, sink.writes, sink.checks = 0, 0, 0, 0, 0
		if ev == 0 {
			h.bad, h.seq = false, n
			err := mp.Process(raw)
			zzAssert(err == nil, "bmc: valid frame accepted")
			start := !rec && m && r+1 >= T && w && d && s
			if start {
				first := n - (N - 1)
				if first < E {
					first = E
				}
				if first < 0 {
					first = 0
				}
				zzAssert(sink.startOKs == 1, "bmc C04: recording starts")
				zzAssert(sink.firstSeq > lastStop, "bmc C01: no frame in two recordings")
				if lastStop >= 0 && n-(N-1) <= lastStop+1 && E == lastStop+1 {
					zzAssert(sink.firstSeq == lastStop+1, "bmc C01: back-to-back recordings tile the stream")
				}
				zzAssert(sink.firstSeq == first, "bmc C02: starts a full pre-trigger buffer before the trigger or at the earliest frame since the last recording")
				zzAssert(sink.writes == n-sink.firstSeq+1 && sink.last == n, "bmc C01: pre-trigger frames and trigger frame written once, in order")
				rec, cnt, lastM = true, 1, 1
			} else {
				zzAssert(sink.startOKs == 0, "bmc C04: no start unless motion persisted, window open, storage ok")
				if rec {
					zzAssert(sink.writes == 1 && sink.last == n, "bmc C01: recording receives exactly the new frame")
					cnt++
					if m {
						lastM = cnt
					}
				} else {
					zzAssert(sink.writes == 0, "bmc C01: nothing written outside a recording")
				}
			}
			if !m || !w {
				zzAssert(sink.starts == 0, "bmc C04: no start attempt without motion or outside the window")
			}
			zzAssert(!sink.orderViol && !sink.viol, "bmc C01: consecutive frames, well-formed calls")
			if m {
				r++
			} else {
				r = 0
			}
			if rec {
				limit := min(lastM-1+minF, maxF)
				zzAssert(cnt <= maxF || cnt == 1, "bmc C03: never beyond max-secs")
				if cnt >= limit {
					zzAssert(sink.stops == 1 && !sink.open, "bmc C03: stops at min-secs past last motion or max-secs")
					rec, r = false, 0
					lastStop = n
					E = n + 1
				} else {
					zzAssert(sink.stops == 0 && sink.open, "bmc C03: keeps recording before the limit")
				}
			} else {
				zzAssert(sink.stops == 0, "bmc: no stop when idle")
			}
			n++
		} else {
			if ev == 1 {
				h.bad = true
				err := mp.Process(raw)
				zzAssert(err != nil, "bmc C13: bad frame reported")
			} else {
				mp.Reset(zzCam{1, 1, fps})
			}
			zzAssert(sink.writes == 0 && sink.starts == 0, "bmc C13: bad frame / reset writes nothing")
			if rec {
				zzAssert(sink.stops == 1 && !sink.open, "bmc C13: recording closed on bad frame / reset")
				rec, r = false, 0
				lastStop = n - 1
				E = n
			} else {
				zzAssert(sink.stops == 0, "bmc: no stop when idle")
			}
			zzAssert(!sink.viol, "bmc: well-formed calls")
		}
	}
	zzReach("bmc end")
	if rec && minF >= 2 {
		zzReach("bmc ends while recording")
	}
}

// replay entries of this file (registered here so that the file can be left out
// on its own when it does not compile against the tree under check)
func init() {
	zzEntries["ZZ_MP_step"] = ZZ_MP_step
	zzEntries["ZZ_MP_bmc"] = ZZ_MP_bmc
}
