package motion

// C19 harnesses: FrameLoop returns exactly the retained history.
//
// Abstract state: n = q*N + c moves since creation/reset (q >= 0, 0 <= c < N),
// mark = qm*N + cm = sequence number of the frame last marked oldest.
// Frame k (k = 0,1,2,...) lives in slot k mod N; the caller writes the current
// slot, so slot i holds frame q*N+i if i <= c, else (q-1)*N+i (unwritten if < 0).

import (
	"github.com/TheCacophonyProject/go-cptv/cptvframe"
)

type zzCam struct{ x, y, fps int }

func (c zzCam) ResX() int { return c.x }
func (c zzCam) ResY() int { return c.y }
func (c zzCam) FPS() int  { return c.fps }

func zzSeq(N, q, c, i int) int {
	if i <= c {
		return q*N + i
	}
	return (q-1)*N + i
}

// zzRetained: the marked frame is still in the buffer (n - mark < N).
func zzRetained(q, c, qm, cm int) bool {
	if q == qm {
		return true
	}
	return q == qm+1 && c < cm
}

type zzAbs struct{ q, c, qm, cm int }

func zzAbsAssume(N int, a zzAbs) {
	zzAssume(0 <= a.q)
	zzAssume(a.q < 1<<40)
	zzAssume(0 <= a.c)
	zzAssume(a.c < N)
	zzAssume(0 <= a.qm)
	zzAssume(0 <= a.cm)
	zzAssume(a.cm < N)
	// mark <= n
	zzAssume(a.qm < a.q || (a.qm == a.q && a.cm <= a.c))
}

// zzMkLoop builds a FrameLoop in the arbitrary state described by a.
func zzMkLoop(N int, a zzAbs, tag string) *FrameLoop {
	fl := NewFrameLoop(N, zzCam{1, 1, 1})
	fl.currentIndex = a.c
	fl.bufferFull = a.q >= 1
	if zzRetained(a.q, a.c, a.qm, a.cm) {
		fl.oldest = a.cm
	} else {
		fl.oldest = NO_OLDEST_SET
	}
	for i := 0; i < N; i++ {
		s := zzSeq(N, a.q, a.c, i)
		if s < 0 {
			s = -1 - zzInt(tag+"junk", i)
			zzAssume(s < 0)
		}
		fl.frames[i].Status.FrameCount = s
		fl.frames[i].Pix[0][0] = zzU16(tag+"pix", i)
		// scratch slice holds arbitrary stale pointers
		j := zzInt(tag+"stale", i)
		zzAssume(0 <= j && j <= N)
		if j < N {
			fl.orderedFrames[i] = fl.frames[j]
		}
	}
	return fl
}

// zzInv: the concrete fields are the image of the abstract state.
func zzInv(fl *FrameLoop, N int, a zzAbs) bool {
	ok := fl.size == N && len(fl.frames) == N && len(fl.orderedFrames) == N
	ok = ok && fl.currentIndex == a.c
	ok = ok && fl.bufferFull == (a.q >= 1)
	if zzRetained(a.q, a.c, a.qm, a.cm) {
		ok = ok && fl.oldest == a.cm
	} else {
		ok = ok && fl.oldest == NO_OLDEST_SET
	}
	for i := 0; i < N; i++ {
		s := zzSeq(N, a.q, a.c, i)
		if s >= 0 {
			ok = ok && fl.frames[i].Status.FrameCount == s
		}
	}
	return ok
}

func zzNondetAbs(tag string) zzAbs {
	return zzAbs{zzInt(tag+"q", 0), zzInt(tag+"c", 0), zzInt(tag+"qm", 0), zzInt(tag+"cm", 0)}
}

// ZZ_C19_init: the constructor establishes the invariant at n = 0, mark = 0.
func ZZ_C19_init() {
	N := zzParam("N")
	fl := NewFrameLoop(N, zzCam{1, 1, 1})
	fl.Current().Status.FrameCount = 0 // the caller writes frame 0 into the current slot
	zzReach("constructed")
	zzAssert(zzInv(fl, N, zzAbs{0, 0, 0, 0}), "constructor establishes invariant")
	for i := 0; i < N; i++ {
		for j := i + 1; j < N; j++ {
			zzAssert(fl.frames[i] != fl.frames[j], "slots are distinct frames")
		}
	}
}

// ZZ_C19_ops: every operation maps an invariant state to the invariant state
// of the abstract successor.
func ZZ_C19_ops() {
	N := zzParam("N")
	a := zzNondetAbs("")
	zzAbsAssume(N, a)
	fl := zzMkLoop(N, a, "")
	op := zzInt("op", 0)
	zzAssume(0 <= op && op < 3)
	zzAssert(zzInv(fl, N, a), "constructed pre-state satisfies invariant")
	zzReach("pre-state")
	b := a
	n := a.q*N + a.c
	switch op {
	case 0:
		r := fl.Move()
		if a.c+1 < N {
			b.c = a.c + 1
		} else {
			b.q, b.c = a.q+1, 0
		}
		zzReach("moved")
		zzAssert(r == fl.frames[b.c], "Move returns the new current slot")
		r.Status.FrameCount = n + 1 // caller writes the next frame
	case 1:
		r := fl.SetAsOldest()
		b.qm, b.cm = a.q, a.c
		zzReach("marked")
		zzAssert(r == fl.frames[a.c], "SetAsOldest returns the current slot")
	case 2:
		fl.Reset()
		b = zzAbs{0, 0, 0, 0}
		zzReach("reset")
		fl.Current().Status.FrameCount = 0
	}
	zzAssert(zzInv(fl, N, b), "invariant preserved by operation")
}

// ZZ_C19_observe: on every invariant state the observers return what the
// property says.
func ZZ_C19_observe() {
	N := zzParam("N")
	a := zzNondetAbs("")
	zzAbsAssume(N, a)
	fl := zzMkLoop(N, a, "")
	zzReach("pre-state")
	n := a.q*N + a.c
	mark := a.qm*N + a.cm
	ret := zzRetained(a.q, a.c, a.qm, a.cm)
	L := N
	if ret {
		L = n - mark + 1
	}
	zzAssert(1 <= L && L <= N, "spec length within capacity")
	zzAssert(L <= n+1, "spec length within frames seen")

	zzAssert(fl.Current() == fl.frames[a.c], "Current is the current slot")
	zzAssert(fl.Current().Status.FrameCount == n, "Current holds frame n")

	old := fl.Oldest()
	if ret {
		zzReach("oldest: mark retained")
		zzAssert(old == fl.frames[a.cm], "Oldest is the marked frame while buffered")
		zzAssert(old.Status.FrameCount == mark, "Oldest holds the marked frame")
	} else {
		zzReach("oldest: mark expired")
		nx := a.c + 1
		if nx == N {
			nx = 0
		}
		zzAssert(old == fl.frames[nx], "Oldest is the slot about to be overwritten")
		zzAssert(old.Status.FrameCount == n-N+1, "Oldest holds frame n-N+1")
	}

	h := fl.GetHistory()
	zzAssert(len(h) == L, "history length")
	zzReach("history taken")
	for k := 0; k < N; k++ {
		if k < L {
			j := a.c - (L - 1 - k)
			if j < 0 {
				j += N
			}
			zzAssert(h[k] == fl.frames[j], "history element is the right slot")
			zzAssert(h[k].Status.FrameCount == n-L+1+k, "history is consecutive, oldest first, ends with current")
			zzAssert(h[k].Status.FrameCount >= 0, "history never holds an unwritten slot")
			if ret {
				zzAssert(h[k].Status.FrameCount >= mark, "history never older than the retained mark")
			}
		}
	}
	zzAssert(h[L-1] == fl.Current(), "history ends with the current frame")

	if N >= 2 && n >= 1 {
		zzReach("recent")
		pix := fl.frames[(a.c-1+N)%N].Pix[0][0]
		r := fl.CopyRecent()
		zzAssert(r.Status.FrameCount == n-1, "recent is the frame before the current one")
		zzAssert(r.Pix[0][0] == pix, "recent copies the pixels")
		for i := 0; i < N; i++ {
			zzAssert(r != fl.frames[i], "recent is a copy, not a buffer slot")
		}
		zzAssert(zzInv(fl, N, a), "CopyRecent leaves the buffer unchanged")
	}
}

// ZZ_C19_bmc: K arbitrary operations from the real constructor, checked
// against a ghost (n, mark) written directly from the property statement.
func ZZ_C19_bmc() {
	N := zzParam("N")
	K := zzParam("K")
	fl := NewFrameLoop(N, zzCam{1, 1, 1})
	n, mark := 0, 0
	fl.Current().Status.FrameCount = 0
	for t := 0; t < K; t++ {
		op := zzInt("op", t)
		zzAssume(0 <= op && op < 3)
		switch op {
		case 0:
			f := fl.Move()
			n++
			f.Status.FrameCount = n
		case 1:
			fl.SetAsOldest()
			mark = n
		case 2:
			fl.Reset()
			n, mark = 0, 0
			fl.Current().Status.FrameCount = 0
		}
		L := N
		if n+1 < L {
			L = n + 1
		}
		ret := n-mark < N
		if ret {
			L = n - mark + 1
		}
		h := fl.GetHistory()
		zzAssert(len(h) == L, "bmc: history length")
		for k := 0; k < N; k++ {
			if k < L {
				zzAssert(h[k].Status.FrameCount == n-L+1+k, "bmc: history content")
			}
		}
		o := fl.Oldest()
		if ret {
			zzAssert(o.Status.FrameCount == mark, "bmc: oldest is mark")
		} else {
			zzAssert(o.Status.FrameCount == n-N+1, "bmc: oldest is next to be overwritten")
		}
		if N >= 2 && n >= 1 {
			// (with nothing written since creation/reset there is no frame before the
			// current one: the statement is silent there)
			r := fl.CopyRecent()
			zzAssert(r.Status.FrameCount == n-1, "bmc: recent is the frame before the current one")
		}
	}
	zzReach("bmc end")
}

var _ = cptvframe.NewFrame

// replay entries of this file (registered here so that the file can be left out
// on its own when it does not compile against the tree under check)
func init() {
	zzEntries["ZZ_C19_init"] = ZZ_C19_init
	zzEntries["ZZ_C19_ops"] = ZZ_C19_ops
	zzEntries["ZZ_C19_observe"] = ZZ_C19_observe
	zzEntries["ZZ_C19_bmc"] = ZZ_C19_bmc
}
