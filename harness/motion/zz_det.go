package motion

// Detector harnesses: C07 (differential vs. a reference written from the
// statement), C08 / C09 (self-composition), C15 (dynamic threshold lemmas).

import (
	"time"

	config "github.com/TheCacophonyProject/go-config"
	"github.com/TheCacophonyProject/go-cptv/cptvframe"
)

func zzMaxU16(a, b uint16) uint16 {
	if a > b {
		return a
	}
	return b
}

// zzChanged: the statement's per-pixel predicate: both values raised to
// temp-thresh, difference (absolute, or increase only) above delta-thresh.
func zzChanged(cur, old, T, D uint16, warmer bool) bool {
	if cur < T {
		cur = T
	}
	if old < T {
		old = T
	}
	d := int32(cur) - int32(old)
	if d < 0 {
		if warmer {
			return false
		}
		d = -d
	}
	return d > int32(D)
}

// zzNoFFC gives a frame telemetry with no recent flat-field correction.
func zzNoFFC(f *cptvframe.Frame, tag string, t int) {
	on, last := zzI64(tag+"timeOn", t), zzI64(tag+"lastFFC", t)
	zzAssume(0 <= last && last <= on && on < 1<<60)
	zzAssume(on-last >= int64(10*time.Second))
	f.Status.TimeOn = time.Duration(on)
	f.Status.LastFFCTime = time.Duration(last)
}

func zzFillFrame(f *cptvframe.Frame, W, H int, tag string, t int) {
	for y := 0; y < H; y++ {
		for x := 0; x < W; x++ {
			f.Pix[y][x] = zzU16(tag+"p", (t*H+y)*W+x)
		}
	}
}

// ZZ_C07_bmc: F frames through the real detector, all four mode combinations
// and all thresholds symbolic, optional Reset before frame R, vs the reference.
func ZZ_C07_bmc() {
	W, H, e, g, F, R := zzParam("W"), zzParam("H"), zzParam("e"), zzParam("g"), zzParam("F"), zzParam("R")
	cam := zzCam{W, H, 1}
	T, D := zzU16("T", 0), zzU16("D", 0)
	C := zzInt("C", 0)
	zzAssume(1 <= C && C < 1<<31)
	one, warmer := zzBool("oneDiff", 0), zzBool("warmer", 0)
	if M := zzParam("M"); M >= 0 {
		// mode combination fixed by the job grid (smaller queries)
		zzAssume(one == (M&1 == 1) && warmer == (M&2 == 2))
		one, warmer = M&1 == 1, M&2 == 2
	}
	conf := config.ThermalMotion{TempThresh: T, DeltaThresh: D, CountThresh: C, FrameCompareGap: g, UseOneDiffOnly: one, WarmerOnly: warmer, EdgePixels: e}
	d := NewMotionDetector(conf, 0, cam)
	frames := make([]*cptvframe.Frame, F)
	since := 0
	for t := 0; t < F; t++ {
		if t == R {
			d.Reset(cam)
			since = t
		}
		f := cptvframe.NewFrame(cam)
		zzFillFrame(f, W, H, "", t)
		zzNoFFC(f, "", t)
		frames[t] = f
		got := d.Detect(f)
		// helper lemmas (solver hints, proved separately): the diff frame just
		// written holds, per interior pixel, a value above delta-thresh exactly
		// when the statement's per-pixel predicate holds.
		{
			ct := t - g
			if ct < since {
				ct = since
			}
			df := d.diffFrames.frames[(d.diffFrames.currentIndex+1)%2]
			for y := e; y < H-e; y++ {
				for x := e; x < W-e; x++ {
					zzLemma((df.Pix[y][x] > D) == zzChanged(f.Pix[y][x], frames[ct].Pix[y][x], T, D, warmer), "diff frame pixel matches the statement's predicate")
				}
			}
		}
		// reference
		want := false
		if t > since {
			ct := t - g
			if ct < since {
				ct = since
			}
			cnt := 0
			for y := e; y < H-e; y++ {
				for x := e; x < W-e; x++ {
					ch := zzChanged(f.Pix[y][x], frames[ct].Pix[y][x], T, D, warmer)
					if !one {
						// also exceeded in the previous frame's comparison
						prev := false
						if t-1 > since {
							pt := t - 1 - g
							if pt < since {
								pt = since
							}
							prev = zzChanged(frames[t-1].Pix[y][x], frames[pt].Pix[y][x], T, D, warmer)
						}
						ch = ch && prev
					}
					if ch {
						cnt++
					}
				}
			}
			want = cnt >= C
		}
		zzAssert(got == want, "C07: motion reported exactly per the configured thresholds")
		if t == F-1 {
			if got {
				zzReach("motion on the last frame")
			} else {
				zzReach("no motion on the last frame")
			}
		}
	}
}

func zzDetConf(W, H, e, g int, dyn bool, tag string) config.ThermalMotion {
	T, D := zzU16(tag+"T", 0), zzU16(tag+"D", 0)
	C := zzInt(tag+"C", 0)
	zzAssume(1 <= C && C < 1<<31)
	conf := config.ThermalMotion{TempThresh: T, DeltaThresh: D, CountThresh: C, FrameCompareGap: g,
		UseOneDiffOnly: zzBool(tag+"oneDiff", 0), WarmerOnly: zzBool(tag+"warmer", 0), EdgePixels: e, DynamicThreshold: dyn}
	if dyn {
		conf.TempThreshMin, conf.TempThreshMax = zzU16(tag+"Tmin", 0), zzU16(tag+"Tmax", 0)
	}
	return conf
}

func zzInterior(x, y, W, H, e int) bool { return e <= x && x < W-e && e <= y && y < H-e }

// zzSameOutcome asserts that two detectors fed (by construction) equivalent
// streams agree, with per-pixel helper lemmas on their diff frames.
func zzSameOutcome(dA, dB *motionDetector, gotA, gotB bool, W, H, e int, dyn bool, label string) {
	dfA := dA.diffFrames.frames[(dA.diffFrames.currentIndex+1)%2]
	dfB := dB.diffFrames.frames[(dB.diffFrames.currentIndex+1)%2]
	if dyn {
		zzAssert(dA.tempThresh == dB.tempThresh, label+": same dynamic threshold")
		for y := e; y < H-e; y++ {
			for x := e; x < W-e; x++ {
				zzAssert(dA.background.Pix[y][x] == dB.background.Pix[y][x], label+": same background interior")
			}
		}
	}
	for y := e; y < H-e; y++ {
		for x := e; x < W-e; x++ {
			zzLemma(dfA.Pix[y][x] == dfB.Pix[y][x], "diff frames agree on the interior")
		}
	}
	zzAssert(gotA == gotB, label+": same detection result")
}

// ZZ_C08_bmc: self-composition. CLAIM 1: streams differ only in border pixels
// (fixed or dynamic threshold); CLAIM 2: fixed threshold, streams differ only at
// interior pixels where both values are <= temp-thresh.
func ZZ_C08_bmc() {
	W, H, e, g, F := zzParam("W"), zzParam("H"), zzParam("e"), zzParam("g"), zzParam("F")
	dyn, claim, pv := zzParam("DYN") == 1, zzParam("CLAIM"), zzParam("PV")
	cam := zzCam{W, H, 1}
	conf := zzDetConf(W, H, e, g, dyn, "")
	dA, dB := NewMotionDetector(conf, pv, cam), NewMotionDetector(conf, pv, cam)
	for t := 0; t < F; t++ {
		fA, fB := cptvframe.NewFrame(cam), cptvframe.NewFrame(cam)
		on, last := zzI64("timeOn", t), zzI64("lastFFC", t)
		zzAssume(0 <= last && last <= on && on < 1<<60)
		fA.Status.TimeOn, fA.Status.LastFFCTime = time.Duration(on), time.Duration(last)
		fB.Status = fA.Status
		for y := 0; y < H; y++ {
			for x := 0; x < W; x++ {
				i := (t*H+y)*W + x
				a := zzU16("a.p", i)
				b := a
				if !zzInterior(x, y, W, H, e) {
					if claim == 1 {
						b = zzU16("b.p", i)
					}
				} else if claim == 2 {
					if zzBool("cold", i) {
						b = zzU16("b.p", i)
						zzAssume(a <= conf.TempThresh && b <= conf.TempThresh)
					}
				}
				fA.Pix[y][x], fB.Pix[y][x] = a, b
			}
		}
		gotA, gotB := dA.Detect(fA), dB.Detect(fB)
		zzSameOutcome(dA, dB, gotA, gotB, W, H, e, dyn, "C08")
	}
	zzReach("end")
}

// ZZ_C09_bmc: PRE clean frames whose content differs between detectors A and B,
// then L frames identical in both whose FFC pattern is the bit mask PAT (bit i:
// frame PRE+i is within 10 s of an FFC), or (RESET=1) a camera reset before frame PRE.
func ZZ_C09_bmc() {
	W, H, e, g := zzParam("W"), zzParam("H"), zzParam("e"), zzParam("g")
	dyn, pv := zzParam("DYN") == 1, zzParam("PV")
	PRE, L, PAT, RESET := zzParam("PRE"), zzParam("L"), zzParam("PAT"), zzParam("RESET") == 1
	cam := zzCam{W, H, 1}
	conf := zzDetConf(W, H, e, g, dyn, "")
	dA, dB := NewMotionDetector(conf, pv, cam), NewMotionDetector(conf, pv, cam)
	prevAffected := false
	passed := false // an FFC-affected frame (or the reset) has been seen
	for t := 0; t < PRE+L; t++ {
		fA, fB := cptvframe.NewFrame(cam), cptvframe.NewFrame(cam)
		affected := t >= PRE && !RESET && (PAT>>uint(t-PRE))&1 == 1
		on, last := zzI64("timeOn", t), zzI64("lastFFC", t)
		zzAssume(0 <= last && last <= on && on < 1<<60)
		if affected {
			zzAssume(on-last < int64(10*time.Second))
		} else {
			zzAssume(on-last >= int64(10*time.Second))
		}
		fA.Status.TimeOn, fA.Status.LastFFCTime = time.Duration(on), time.Duration(last)
		fB.Status = fA.Status
		for y := 0; y < H; y++ {
			for x := 0; x < W; x++ {
				i := (t*H+y)*W + x
				a := zzU16("a.p", i)
				b := a
				if t < PRE {
					b = zzU16("b.p", i)
				}
				fA.Pix[y][x], fB.Pix[y][x] = a, b
			}
		}
		if RESET && t == PRE {
			dA.Reset(cam)
			dB.Reset(cam)
			passed = true
		}
		gotA, gotB := dA.Detect(fA), dB.Detect(fB)
		if affected || prevAffected {
			zzAssert(!gotA && !gotB, "C09: no motion reported within 10 s after an FFC nor on the frame directly following")
		}
		if affected {
			passed = true
		}
		if passed && !affected && t >= PRE {
			// from the first clean frame after the period / reset on, results do not
			// depend on anything seen before it
			zzSameOutcome(dA, dB, gotA, gotB, W, H, e, dyn, "C09")
		}
		prevAffected = affected
	}
	zzReach("end")
}

// ---------- C15: dynamic threshold

func zzClampInt(v int, lo, hi uint16) int {
	if lo != 0 && v < int(lo) {
		v = int(lo)
	}
	if hi != 0 && v > int(hi) {
		v = int(hi)
	}
	return v
}

// zzDynDetector: a dynamic-threshold detector in an arbitrary background state.
func zzDynDetector(W, H, e int) *motionDetector {
	conf := zzDetConf(W, H, e, 1, true, "")
	d := NewMotionDetector(conf, 0, zzCam{W, H, 1})
	for y := 0; y < H; y++ {
		for x := 0; x < W; x++ {
			d.background.Pix[y][x] = zzU16("bg", y*W+x)
			w := zzF32bits("w", y*W+x)
			zzAssume(w >= 0) // excludes NaN; weights start at 0 and only grow (capped) or reset to 0
			d.backgroundWeight[y][x] = w
		}
	}
	d.previewFrames = zzInt("previewFrames", 0)
	d.backgroundFrames = zzInt("backgroundFrames", 0)
	zzAssume(0 <= d.previewFrames && d.previewFrames < 1<<31 && 0 <= d.backgroundFrames && d.backgroundFrames < 1<<31)
	d.tempThresh = zzU16("th", 0)
	d.affectedByFCC = zzBool("prevFFC", 0)
	return d
}

func zzClampCoord(v, lo, hi int) int {
	if v < lo {
		return lo
	}
	if v > hi {
		return hi
	}
	return v
}

// ZZ_C15_update: one updateBackground call from an arbitrary background state.
func ZZ_C15_update() {
	W, H, e := zzParam("W"), zzParam("H"), zzParam("e")
	d := zzDynDetector(W, H, e)
	f := cptvframe.NewFrame(zzCam{W, H, 1})
	zzFillFrame(f, W, H, "", 0)
	prevFFC := zzBool("prevFFC", 0)
	seed := d.backgroundFrames == 0
	zzReach("pre-state")
	avg, changed := d.updateBackground(f, prevFFC)
	n := (H - 2*e) * (W - 2*e)
	sum := 0
	for y := e; y < H-e; y++ {
		for x := e; x < W-e; x++ {
			bg := d.background.Pix[y][x]
			sum += int(bg)
			zzAssert(bg <= f.Pix[y][x], "C15: background never warmer than the current frame")
			if prevFFC || seed {
				zzAssert(bg == f.Pix[y][x], "C15: background re-seeded from the current frame after an FFC or reset")
			}
			if !seed {
				w := d.backgroundWeight[y][x]
				zzAssert(w >= 0, "Inv: background weights stay non-negative numbers")
				if prevFFC {
					zzAssert(w == 0, "C15: weight cleared on re-seed")
				}
			}
		}
	}
	for y := 0; y < H; y++ {
		for x := 0; x < W; x++ {
			if !zzInterior(x, y, W, H, e) {
				zzAssert(d.background.Pix[y][x] == d.background.Pix[zzClampCoord(y, e, H-e-1)][zzClampCoord(x, e, W-e-1)], "C15: background border replicates the nearest interior pixel")
			}
		}
	}
	if changed && (n == 1 || n == 2 || (n == 4 && zzParam("MEAN4") == 1)) {
		zzReach("mean checked")
		zzAssert(avg == float64(sum)/float64(n), "C15: returned average is the mean of the interior background")
	}
}

// ZZ_C15_clamp: calculateThreshold for every average and every min/max setting.
func ZZ_C15_clamp() {
	d := zzDynDetector(1, 1, 0)
	mean := zzInt("mean", 0)
	frac := zzInt("frac", 0) // average = mean + frac/1024
	zzAssume(0 <= mean && mean <= 65535 && 0 <= frac && frac < 1024)
	zzAssume(d.tempThreshMin == 0 || d.tempThreshMax == 0 || d.tempThreshMin <= d.tempThreshMax)
	avg := float64(mean) + float64(frac)/1024
	zzReach("pre-state")
	d.calculateThreshold(avg)
	zzAssert(int(d.tempThresh) == zzClampInt(mean, d.tempThreshMin, d.tempThreshMax), "C15: recomputed threshold is the mean limited to [temp-thresh-min, temp-thresh-max]")
}

// ZZ_C15_detect: one Detect call from an arbitrary background state: whenever
// the threshold changes it becomes the clamped mean of the interior background.
func ZZ_C15_detect() {
	W, H, e := zzParam("W"), zzParam("H"), zzParam("e")
	if (W-2*e)*(H-2*e) != 1 {
		panic("zz: ZZ_C15_detect is written for 1-pixel interiors (exact integer mean)")
	}
	d := zzDynDetector(W, H, e)
	zzAssume(d.tempThreshMin == 0 || d.tempThreshMax == 0 || d.tempThreshMin <= d.tempThreshMax)
	f := cptvframe.NewFrame(zzCam{W, H, 1})
	zzFillFrame(f, W, H, "", 0)
	on, last := zzI64("timeOn", 0), zzI64("lastFFC", 0)
	zzAssume(0 <= last && last <= on && on < 1<<60)
	f.Status.TimeOn, f.Status.LastFFCTime = time.Duration(on), time.Duration(last)
	affected := on-last < int64(10*time.Second)
	th0 := d.tempThresh
	var bg0 [64]uint16
	for y := 0; y < H; y++ {
		for x := 0; x < W; x++ {
			bg0[y*W+x] = d.background.Pix[y][x]
		}
	}
	zzReach("pre-state")
	d.Detect(f)
	n := (H - 2*e) * (W - 2*e)
	sum := 0
	for y := e; y < H-e; y++ {
		for x := e; x < W-e; x++ {
			sum += int(d.background.Pix[y][x])
		}
	}
	if affected {
		zzAssert(d.tempThresh == th0, "C15: threshold never recomputed on an FFC-affected frame")
		for y := 0; y < H; y++ {
			for x := 0; x < W; x++ {
				zzAssert(d.background.Pix[y][x] == bg0[y*W+x], "C15: background untouched by FFC-affected frames")
			}
		}
	}
	if d.tempThresh != th0 {
		zzReach("threshold recomputed")
		zzAssert(int(d.tempThresh) == zzClampInt(sum/n, d.tempThreshMin, d.tempThreshMax), "C15: recomputed threshold equals the mean of the interior background limited to the configured range")
	}
}

// ---------- C15 recompute sites (structural; updateBackground and
// calculateThreshold replaced by recording stubs)

var (
	zzUBCalls, zzCTCalls int
	zzUBPrevFFC          bool
	zzCTArgOK            bool
	zzGhostAvg           float64
)

func zzStubUpdateBackground(d *motionDetector, f *cptvframe.Frame, prevFFC bool) (float64, bool) {
	zzUBCalls++
	zzUBPrevFFC = prevFFC
	return zzGhostAvg, zzBool("changed", 0)
}

func zzStubCalcThreshold(d *motionDetector, avg float64) {
	zzCTCalls++
	zzCTArgOK = avg == zzGhostAvg && zzUBCalls == 1
	d.tempThresh = zzU16("newTh", 0)
}

// ZZ_C15_sites: in one Detect call the threshold changes only through
// calculateThreshold applied to the average that updateBackground returned in
// that same call, never on an FFC-affected frame, and the background update is
// told whether the previous frame was FFC-affected.
func ZZ_C15_sites() {
	W, H, e := 2, 2, 0
	d := zzDynDetector(W, H, e)
	d.dynamicThresh = zzBool("dynamic", 0)
	zzGhostAvg = float64(zzU16("avg", 0))
	f := cptvframe.NewFrame(zzCam{W, H, 1})
	zzFillFrame(f, W, H, "", 0)
	on, last := zzI64("timeOn", 0), zzI64("lastFFC", 0)
	zzAssume(0 <= last && last <= on && on < 1<<60)
	f.Status.TimeOn, f.Status.LastFFCTime = time.Duration(on), time.Duration(last)
	affected := on-last < int64(10*time.Second)
	th0, prev0, dyn := d.tempThresh, d.affectedByFCC, d.dynamicThresh
	zzReach("pre-state")
	d.Detect(f)
	if affected || !dyn {
		zzAssert(zzUBCalls == 0 && zzCTCalls == 0 && d.tempThresh == th0, "C15: no background update or threshold recompute on FFC-affected frames (or with a fixed threshold)")
	} else {
		zzReach("dynamic clean frame")
		zzAssert(zzUBCalls == 1 && zzUBPrevFFC == prev0, "C15: background updated once per clean frame and told about a preceding FFC")
	}
	zzAssert(zzCTCalls <= 1, "C15: at most one recompute per frame")
	if zzCTCalls == 1 {
		zzReach("recomputed")
		zzAssert(zzCTArgOK, "C15: threshold recomputed from the background mean returned in the same call")
	}
	if d.tempThresh != th0 {
		zzAssert(zzCTCalls == 1, "C15: threshold changes only by recomputation from the background mean")
	}
}

// replay entries of this file (registered here so that the file can be left out
// on its own when it does not compile against the tree under check)
func init() {
	zzEntries["ZZ_C07_bmc"] = ZZ_C07_bmc
	zzEntries["ZZ_C08_bmc"] = ZZ_C08_bmc
	zzEntries["ZZ_C09_bmc"] = ZZ_C09_bmc
	zzEntries["ZZ_C15_update"] = ZZ_C15_update
	zzEntries["ZZ_C15_clamp"] = ZZ_C15_clamp
	zzEntries["ZZ_C15_detect"] = ZZ_C15_detect
	zzEntries["ZZ_C15_sites"] = ZZ_C15_sites
}
