package motion

// Detector harnesses: C07 (differential vs. a reference written from the
// statement), C08 / C09 (self-composition), C15 (dynamic threshold lemmas).

import (
	"time"

	config "github.com/TheCacophonyProject/go-config"
	"github.com/TheCacophonyProject/go-cptv/cptvframe"
)

func zzMaxU16(a, b uint16) uint16 {
	if a > b {
		return a
	}
	return b
}

// zzChanged: the statement's per-pixel predicate: both values raised to
// temp-thresh, difference (absolute, or increase only) above delta-thresh.
func zzChanged(cur, old, T, D uint16, warmer bool) bool {
	if cur < T {
		cur = T
	}
	if old < T {
		old = T
	}
	d := int32(cur) - int32(old)
	if d < 0 {
		if warmer {
			return false
		}
		d = -d
	}
	return d > int32(D)
}

// zzNoFFC gives a frame telemetry with no recent flat-field correction.
func zzNoFFC(f *cptvframe.Frame, tag string, t int) {
	on, last := zzI64(tag+"timeOn", t), zzI64(tag+"lastFFC", t)
	zzAssume(0 <= last && last <= on && on < 1<<60)
	zzAssume(on-last >= int64(10*time.Second))
	f.Status.TimeOn = time.Duration(on)
	f.Status.LastFFCTime = time.Duration(last)
}

func zzFillFrame(f *cptvframe.Frame, W, H int, tag string, t int) {
	for y := 0; y < H; y++ {
		for x := 0; x < W; x++ {
			f.Pix[y][x] = zzU16(tag+"p", (t*H+y)*W+x)
		}
	}
}

// ZZ_C07_bmc: F frames through the real detector, all four mode combinations
// and all thresholds symbolic, optional Reset before frame R, vs the reference.
func ZZ_C07_bmc() {
	W, H, e, g, F, R := zzParam("W"), zzParam("H"), zzParam("e"), zzParam("g"), zzParam("F"), zzParam("R")
	cam := zzCam{W, H, 1}
	T, D := zzU16("T", 0), zzU16("D", 0)
	C := zzInt("C", 0)
	zzAssume(1 <= C && C < 1<<31)
	one, warmer := zzBool("oneDiff", 0), zzBool("warmer", 0)
	if M := zzParam("M"); M >= 0 {
		// mode combination fixed by the job grid (smaller queries)
		zzAssume(one == (M&1 == 1) && warmer == (M&2 == 2))
		one, warmer = M&1 == 1, M&2 == 2
	}
	conf := config.ThermalMotion{TempThresh: T, DeltaThresh: D, CountThresh: C, FrameCompareGap: g, UseOneDiffOnly: one, WarmerOnly: warmer, EdgePixels: e}
	d := NewMotionDetector(conf, 0, cam)
	frames := make([]*cptvframe.Frame, F)
	since := 0
	for t := 0; t < F; t++ {
		if t == R {
			d.Reset(cam)
			since = t
		}
		f := cptvframe.NewFrame(cam)
		zzFillFrame(f, W, H, "", t)
		zzNoFFC(f, "", t)
		frames[t] = f
		got := d.Detect(f)
		// helper lemmas (solver hints, proved separately): the diff frame just
		// written holds, per interior pixel, a value above delta-thresh exactly
		// when the statement's per-pixel predicate holds.
		{
			ct := t - g
			if ct < since {
				ct = since
			}
			df := d.diffFrames.frames[(d.diffFrames.currentIndex+1)%2]
			for y := e; y < H-e; y++ {
				for x := e; x < W-e; x++ {
					zzLemma((df.Pix[y][x] > D) == zzChanged(f.Pix[y][x], frames[ct].Pix[y][x], T, D, warmer), "diff frame pixel matches the statement's predicate")
				}
			}
		}
		// reference
		want := false
		if t > since {
			ct := t - g
			if ct < since {
				ct = since
			}
			cnt := 0
			for y := e; y < H-e; y++ {
				for x := e; x < W-e; x++ {
					ch := zzChanged(f.Pix[y][x], frames[ct].Pix[y][x], T, D, warmer)
					if !one {
						// also exceeded in the previous frame's comparison
						prev := false
						if t-1 > since {
							pt := t - 1 - g
							if pt < since {
								pt = since
							}
							prev = zzChanged(frames[t-1].Pix[y][x], frames[pt].Pix[y][x], T, D, warmer)
						}
						ch = ch && prev
					}
					if ch {
						cnt++
					}
				}
			}
			want = cnt >= C
		}
		zzAssert(got == want, "C07: motion reported exactly per the configured thresholds")
		if t == F-1 {
			if got {
				zzReach("motion on the last frame")
			} else {
				zzReach("no motion on the last frame")
			}
		}
	}
}
