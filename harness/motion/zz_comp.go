package motion

// C05 composition: real MotionProcessor -> real ThrottledRecorder -> real juju
// token bucket -> monitored storage sink, K frames with arbitrary motion bits
// and arbitrary non-negative clock advances between frames.

import (
	"time"

	config "github.com/TheCacophonyProject/go-config"
	"github.com/TheCacophonyProject/thermal-recorder/recorder"
	"github.com/TheCacophonyProject/thermal-recorder/throttle"
	"github.com/TheCacophonyProject/window"
	"github.com/juju/ratelimit"
)

var zzCompNow int64

type zzCompClock struct{}

func (zzCompClock) Now() time.Time        { return zzTimeNs(zzCompNow) }
func (zzCompClock) Sleep(d time.Duration) {}

func ZZ_C05_comp() {
	fps, minS, maxS, prevS, T, K := zzParam("fps"), zzParam("minS"), zzParam("maxS"), zzParam("prevS"), zzParam("T"), zzParam("K")
	bucketS, refillNs := zzParam("bucketS"), zzParam("refillNs")
	h := &zzMP{}
	base := &zzSink{last: -1}
	cam := zzCam{1, 1, fps}
	zzCompNow = 0
	cfg := &config.ThermalThrottler{Activate: true, BucketSize: time.Duration(bucketS) * time.Second, MinRefill: time.Duration(refillNs)}
	tr := throttle.NewThrottledRecorderWithClock(base, cfg, minS+prevS, nil, zzCompClock{}, cam)
	bucket := zzFieldVal(tr, "bucket").(*ratelimit.Bucket)
	cap := bucket.Capacity()
	fi := zzFieldInt(bucket, "fillInterval")
	q := zzFieldInt(bucket, "quantum")
	zzAssert(cap == int64(bucketS*fps) && q == 1 && fi == int64(zzParam("fi")), "C05: bucket as configured")
	mc := zzMotionConf(T)
	rc := &recorder.RecorderConfig{MinSecs: minS, MaxSecs: maxS, PreviewSecs: prevS}
	if !zzSymbolic() {
		w, err := window.New("10:00", "11:00", 0, 0)
		if err != nil {
			panic(err)
		}
		w.Now = zzWindowNow
		rc.Window = *w
	}
	mp := NewMotionProcessor(h.parse, &mc, rc, &config.Location{}, nil, tr, cam, nil, nil)
	raw := make([]byte, 2)
	zzGateOpen = true
	var fw [16]int64
	var at [16]int64 // tick of frame t
	ticks := int64(0)
	for t := 0; t < K; t++ {
		// clock advances by whole fill intervals (sub-tick timing is covered by the
		// throttle-level jobs): instant = ticks * fillInterval
		d := zzI64("d", t)
		zzAssume(0 <= d && d < 1<<16)
		ticks += d
		zzCompNow = ticks * fi
		at[t] = ticks
		zzMotionBit, zzEvIdx = zzBool("m", t), t
		base.writes = 0
		h.bad, h.seq, h.t = false, t, t
		err := mp.Process(raw)
		zzAssert(err == nil, "comp: frame accepted")
		zzAssert(!base.viol, "C06: storage sees properly paired calls under the real processor")
		fw[t] = int64(base.writes)
		sum := int64(0)
		for i := t; i >= 0; i-- {
			sum += fw[i]
			if sum > cap+2 {
				if i == 0 {
					zzReach("comp: more frames than bucket+2 since the start")
				}
				zzAssert(sum-cap-2 <= (ticks-at[i])*q, "C05: composed with the real motion processor, frames reaching storage in any interval <= bucket size + refill earned + 2")
			}
		}
	}
	zzReach("comp end")
}

// replay entries of this file (registered here so that the file can be left out
// on its own when it does not compile against the tree under check)
func init() {
	zzEntries["ZZ_C05_comp"] = ZZ_C05_comp
}
