package throttle

// C05/C06 harnesses: ThrottledRecorder + the real juju token bucket.

import (
	"time"

	config "github.com/TheCacophonyProject/go-config"
	"github.com/TheCacophonyProject/go-cptv/cptvframe"
)

var zzEntries = map[string]func(){
	"ZZ_T_step": ZZ_T_step,
	"ZZ_T_bmc":  ZZ_T_bmc,
}

type zzCam struct{ fps int }

func (c zzCam) ResX() int { return 1 }
func (c zzCam) ResY() int { return 1 }
func (c zzCam) FPS() int  { return c.fps }

type zzError struct{ what string }

func (e *zzError) Error() string { return e.what }

// zzClock hands out pre-drawn instants (ns since 1970), one per read.
type zzClock struct {
	ns    [4]int64
	reads int
}

func (c *zzClock) Now() time.Time {
	i := c.reads
	c.reads++
	return zzTimeNs(c.ns[i])
}
func (c *zzClock) Sleep(d time.Duration) {}

// zzBase is the monitored wrapped recorder.
type zzBase struct {
	open       bool
	sinceStart int64
	starts     int
	startOKs   int
	stops      int
	writes     int
	checks     int
	viol       bool
	failStart  bool
	bg         *cptvframe.Frame
	thresh     uint16
	frame      *cptvframe.Frame
	startErr   error
}

func (b *zzBase) StartRecording(bg *cptvframe.Frame, th uint16) error {
	b.starts++
	if b.open {
		b.viol = true
	}
	b.bg, b.thresh = bg, th
	if b.failStart {
		b.startErr = &zzError{"start"}
		return b.startErr
	}
	b.open = true
	b.sinceStart = 0
	b.startOKs++
	return nil
}

func (b *zzBase) WriteFrame(f *cptvframe.Frame) error {
	b.writes++
	if !b.open {
		b.viol = true
	}
	b.sinceStart++
	b.frame = f
	return nil
}

func (b *zzBase) StopRecording() error {
	b.stops++
	if !b.open {
		b.viol = true
	}
	b.open = false
	return nil
}

func (b *zzBase) CheckCanRecord() error {
	b.checks++
	return nil
}

type zzLis struct{ count int }

func (l *zzLis) WhenThrottled() { l.count++ }

func zzMin64(a, b int64) int64 {
	if a < b {
		return a
	}
	return b
}

// zzAvail: what the bucket reports as available at tick T (library semantics).
func zzAvail(a, l, T, cap, q int64) int64 {
	if a >= cap {
		return a
	}
	return zzMin64(cap, a+(T-l)*q)
}

// zzPsi: potential = tokens obtainable at tick T without further refill,
// including the library's one stale-tick token when the bucket is full.
func zzPsi(a, l, T, cap, q int64) int64 {
	p := zzMin64(cap, a+(T-l)*q)
	if a == cap && T > l {
		p++
	}
	return p
}

type zzTH struct {
	tr    *ThrottledRecorder
	base  *zzBase
	lis   *zzLis
	clock *zzClock
	cap   int64
	fi    int64
	q     int64
	minR  int64
}

func zzMkThrottle() *zzTH {
	bucketS, refillNs, minSec, fps := zzParam("bucketS"), zzParam("refillNs"), zzParam("minSec"), zzParam("fps")
	h := &zzTH{base: &zzBase{}, lis: &zzLis{}, clock: &zzClock{}}
	cfg := &config.ThermalThrottler{Activate: true, BucketSize: time.Duration(bucketS) * time.Second, MinRefill: time.Duration(refillNs)}
	h.tr = NewThrottledRecorderWithClock(h.base, cfg, minSec, h.lis, h.clock, zzCam{fps})
	h.cap = h.tr.bucket.Capacity()
	h.fi = zzFieldInt(h.tr.bucket, "fillInterval")
	h.q = zzFieldInt(h.tr.bucket, "quantum")
	h.minR = h.tr.minRecordingLength
	zzAssert(h.cap == int64(bucketS*fps), "C05: bucket capacity is bucket-size*fps frames")
	zzAssert(h.minR == int64(minSec*fps), "C05/C06: minimum recording length is (min+preview secs)*fps frames")
	zzAssert(h.q == 1, "C05: token quantum is one frame")
	want := float64(minSec*fps) / cfg.MinRefill.Seconds()
	got := h.tr.bucket.Rate()
	zzAssert(got <= want*1.0101 && got >= want*0.9899, "C05: refill rate within the library's 1% of (min+preview)*fps per min-refill")
	zzAssert(h.fi == int64(zzParam("fi")), "fill interval as expected by the job grid")
	return h
}

// ZZ_T_step: one request from an arbitrary invariant state.
type zzTGhost struct {
	a, l, T0 int64
	rec      bool
	client   bool
	w        int64
	bgOld    *cptvframe.Frame
	thOld    uint16
	r0       int64 // remainder (ns within tick) of the last clock read
}

func ZZ_T_step() {
	h := zzMkThrottle()
	tr, base := h.tr, h.base
	cap, q, minR := h.cap, h.q, h.minR
	g := &zzTGhost{}
	g.a, g.l, g.T0 = zzI64("a", 0), zzI64("l", 0), zzI64("T0", 0)
	g.rec, g.client = zzBool("rec", 0), zzBool("client", 0)
	g.w = zzI64("w", 0)
	zzAssume(0 <= g.a && g.a <= cap)
	zzAssume(0 <= g.l && g.l <= g.T0 && g.T0 < 1<<20)
	zzAssume(0 <= g.w && g.w < 1<<40)
	if g.rec {
		zzAssume(g.client)
		zzAssume(zzPsi(g.a, g.l, g.T0, cap, q)+g.w >= minR)
	}
	zzSetFieldInt(tr.bucket, "availableTokens", g.a)
	zzSetFieldInt(tr.bucket, "latestTick", g.l)
	tr.recording = g.rec
	base.open = g.rec
	base.sinceStart = g.w
	g.bgOld = &cptvframe.Frame{}
	g.thOld = zzU16("thOld", 0)
	tr.backgroundFrame, tr.tempThresh = g.bgOld, g.thOld
	zzReach("pre-state")
	steps := zzParam("STEPS")
	for t := 0; t < steps; t++ {
		zzTEvent(h, g, t)
	}
}

// zzTEvent: one client request, checked against the ghost g, which is then
// advanced to the (real) successor state.
func zzTEvent(h *zzTH, g *zzTGhost, t int) {
	tr, base, lis, clock := h.tr, h.base, h.lis, h.clock
	cap, fi, q, minR := h.cap, h.fi, h.q, h.minR
	a, l, T0, rec, client, w, bgOld, thOld := g.a, g.l, g.T0, g.rec, g.client, g.w, g.bgOld, g.thOld
	_ = w
	base.starts, base.startOKs, base.stops, base.writes = 0, 0, 0, 0
	lis.count = 0

	// the (at most two) clock reads of this request: arbitrary later instants
	k1, r1, k2, r2 := zzI64("k", 2*t+1), zzI64("r", 2*t+1), zzI64("k", 2*t+2), zzI64("r", 2*t+2)
	zzAssume(T0 <= k1 && k1 <= k2 && k2 < 1<<20)
	zzAssume(0 <= r1 && r1 < fi && 0 <= r2 && r2 < fi)
	zzAssume(k1 < k2 || r1 <= r2)
	zzAssume(T0 < k1 || g.r0 <= r1)
	clock.ns[0], clock.ns[1] = k1*fi+r1, k2*fi+r2
	clock.reads = 0
	base.failStart = zzBool("failStart", t)

	op := zzInt("op", t)
	zzAssume(0 <= op && op < 3)
	bg := &cptvframe.Frame{}
	th := zzU16("th", t)
	frame := &cptvframe.Frame{}
	psi0 := zzPsi(a, l, T0, cap, q)
	var err error
	switch op {
	case 0:
		zzAssume(!client)
		err = tr.StartRecording(bg, th)
		avail := zzAvail(a, l, k1, cap, q)
		if avail >= minR {
			if cap >= minR {
				zzReach("start forwarded")
			}
			zzAssert(base.starts == 1 && base.bg == bg && base.thresh == th, "C06: start within budget is forwarded unchanged")
			if base.failStart {
				zzAssert(err != nil && err == base.startErr && !tr.recording, "C06: a failing wrapped start is reported and leaves the throttle closed")
			} else {
				zzAssert(err == nil && tr.recording, "C06: start within budget opens the file")
			}
			zzAssert(lis.count == 0, "C06: no throttled event when the start is forwarded")
		} else {
			zzReach("start suppressed")
			zzAssert(base.starts == 0 && err == nil && !tr.recording, "C06: start without a full clip of budget is suppressed")
			zzAssert(lis.count == 1, "C06: exactly one throttled event per suppressed start")
		}
		if err == nil {
			zzAssert(tr.backgroundFrame == bg && tr.tempThresh == th, "C06/C15: background and threshold of the trigger are remembered for restarts")
		}
		zzAssert(base.writes == 0 && base.stops == 0, "C06: start forwards no frame and no stop")
	case 1:
		zzAssume(client)
		err = tr.WriteFrame(frame)
		restarted := false
		if !rec {
			avail := zzAvail(a, l, k1, cap, q)
			if avail >= minR {
				if cap >= minR {
					zzReach("mid-trigger restart attempted")
				}
				zzAssert(base.starts == 1 && base.bg == bgOld && base.thresh == thOld, "C06/C15: a mid-trigger restart reuses the trigger's background and threshold")
				restarted = !base.failStart
				if base.failStart {
					zzAssert(err != nil && base.writes == 0 && !tr.recording, "C06: failed restart is reported, nothing written")
				}
			} else {
				zzReach("write while throttled")
				zzAssert(base.starts == 0 && base.writes == 0 && err == nil, "C06: restarts only once a full clip of budget is available")
				zzAssert(lis.count == 0, "C06: no throttled event per suppressed frame")
			}
		} else {
			zzAssert(base.starts == 0, "C06: no start while the file is open")
		}
		if rec || restarted {
			// the token is taken at the last clock read
			tk := k1
			a1, l1 := a, l
			if restarted {
				tk = k2
				if a < cap {
					a1, l1 = zzMin64(cap, a+(k1-l)*q), k1
				}
			}
			availW := zzAvail(a1, l1, tk, cap, q)
			if availW > 0 {
				zzReach("frame forwarded")
				zzAssert(base.writes == 1 && base.frame == frame && err == nil, "C06: frame within budget is forwarded unchanged")
				zzAssert(base.stops == 0 && lis.count == 0 && tr.recording, "C06: no cut while tokens remain")
			} else {
				zzReach("throttle cut")
				zzAssert(base.writes == 0 && base.stops == 1 && !tr.recording, "C06: out of budget: the file is closed cleanly")
				zzAssert(lis.count == 1, "C06: exactly one throttled event per cut")
				zzAssert(base.sinceStart >= minR, "C06: a throttle-cut file holds at least a minimum-length recording")
			}
		}
	case 2:
		zzAssume(client)
		err = tr.StopRecording()
		zzAssert(err == nil, "stop returns the wrapped result")
		if rec {
			zzAssert(base.stops == 1, "C06: stop of an open file is forwarded")
		} else {
			zzAssert(base.stops == 0, "C06: stop of a throttled recording is not forwarded")
		}
		zzAssert(base.starts == 0 && base.writes == 0 && lis.count == 0 && !tr.recording, "C06: stop forwards nothing else")
	}
	zzAssert(!base.viol, "C06: the wrapped recorder sees properly paired start/write/stop")
	zzAssert(base.writes <= 1, "C05: at most one frame forwarded per request")

	// potential argument (C05) and Inv_T of the successor
	Tl := T0
	if clock.reads == 1 {
		Tl = k1
	}
	if clock.reads >= 2 {
		Tl = k2
	}
	a2, l2 := zzFieldInt(tr.bucket, "availableTokens"), zzFieldInt(tr.bucket, "latestTick")
	psi2 := zzPsi(a2, l2, Tl, cap, q)
	zzAssert(int64(base.writes) <= psi0+(Tl-T0)*q-psi2, "C05: forwarded frames are paid for by the potential (bucket + refill earned)")
	zzAssert(0 <= a2 && a2 <= cap && 0 <= l2 && l2 <= Tl, "Inv: bucket state")
	zzAssert(tr.recording == base.open, "Inv: recording flag mirrors the wrapped recorder")
	if tr.recording {
		zzAssert(psi2+base.sinceStart >= minR, "Inv: an open file can always reach the minimum length")
	}
	// successor ghost: the real post-state
	g.a, g.l, g.T0 = a2, l2, Tl
	g.r0 = 0
	if clock.reads == 1 {
		g.r0 = r1
	}
	if clock.reads >= 2 {
		g.r0 = r2
	}
	g.rec, g.w = tr.recording, base.sinceStart
	g.bgOld, g.thOld = tr.backgroundFrame, tr.tempThresh
	switch op {
	case 0:
		if err == nil {
			g.client = true
		}
	case 2:
		g.client = false
	}
}

// ZZ_T_bmc: K well-formed client requests from the constructor's state; direct
// statement of the interval bound for every sub-interval.
func ZZ_T_bmc() {
	h := zzMkThrottle()
	tr, base, lis, clock := h.tr, h.base, h.lis, h.clock
	cap, fi, q, minR := h.cap, h.fi, h.q, h.minR
	K := zzParam("K")
	client := false
	now := int64(0)
	var fw [16]int64 // frames forwarded by request t
	var at [16]int64 // instant of request t (first clock read)
	for t := 0; t < K; t++ {
		d1, d2 := zzI64("d1", t), zzI64("d2", t)
		zzAssume(0 <= d1 && d1 < 1<<44 && 0 <= d2 && d2 < 1<<44)
		clock.ns[0] = now + d1
		clock.ns[1] = now + d1 + d2
		clock.reads = 0
		at[t] = now + d1
		base.failStart = zzBool("failStart", t)
		base.starts, base.startOKs, base.stops, base.writes = 0, 0, 0, 0
		lis.count = 0
		wasOpen := base.open
		op := zzInt("op", t)
		zzAssume(0 <= op && op < 3)
		switch op {
		case 0:
			zzAssume(!client)
			err := tr.StartRecording(&cptvframe.Frame{}, 0)
			if err == nil {
				client = true
				if !base.open {
					zzAssert(lis.count == 1, "bmc C06: one throttled event per suppressed start")
				} else {
					zzAssert(lis.count == 0, "bmc C06: no event when started")
				}
			} else {
				zzAssert(base.failStart && !base.open, "bmc C06: start error only from the wrapped recorder")
			}
		case 1:
			zzAssume(client)
			tr.WriteFrame(&cptvframe.Frame{})
			if wasOpen && !base.open {
				zzAssert(lis.count == 1 && base.stops == 1, "bmc C06: one throttled event and one clean stop per cut")
				zzAssert(base.sinceStart >= minR, "bmc C06: throttle-cut file holds at least a minimum-length recording")
			} else {
				zzAssert(lis.count == 0, "bmc C06: never an event per frame")
			}
		case 2:
			zzAssume(client)
			tr.StopRecording()
			client = false
			zzAssert(!base.open && lis.count == 0, "bmc C06: stop closes the file silently")
		}
		zzAssert(!base.viol, "bmc C06: properly paired calls at the wrapped recorder")
		fw[t] = int64(base.writes)
		if clock.reads == 2 {
			now = clock.ns[1]
		} else {
			now = clock.ns[0]
		}
		// every interval ending here: frames <= bucket + 2 + refill earned
		sum := int64(0)
		for i := t; i >= 0; i-- {
			sum += fw[i]
			if sum > cap+2 {
				if i == 0 {
					zzReach("bmc: more frames than bucket+2 since the start")
				}
				zzAssert((sum-cap-2)*fi <= (now-at[i])*q, "bmc C05: frames in any interval <= bucket size + refill earned + 2")
			}
		}
	}
	zzReach("bmc end")
}
