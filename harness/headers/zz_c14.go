package headers

// C14 (header part): ReadHeaderInfo's line loop over an arbitrary stream of
// header lines, with EOF at an arbitrary position. Under the engine the
// bufio / bytes / strings / yaml callees are replaced by contract stubs over a
// ghost line stream; natively the same stream is real bytes through the real
// bufio.Reader and yaml.v1.

import (
	"bufio"
	"bytes"
	"errors"
	"io"
)

var zzEntries = map[string]func(){
	"ZZ_C14_header": ZZ_C14_header,
}

const zzMaxL = 8

var (
	zzN        int // lines available before EOF
	zzPartial  bool
	zzKinds    [zzMaxL]int // 0 "\n", 1 "  \n", 2 field line, 3 malformed YAML
	zzAlt      [zzMaxL]bool
	zzNext     int
	zzWritten  [zzMaxL]bool
	zzBadWrite bool
)

// (no package-level initialisers: package init is not run by the engine)
func zzKey(j int) string {
	switch j {
	case 0:
		return XResolution
	case 1:
		return YResolution
	case 2:
		return FPS
	case 3:
		return FrameSize
	case 4:
		return Brand
	case 5:
		return Model
	case 6:
		return Serial
	}
	return Firmware
}

// field j's line: a value of the expected type, or (alt) of the wrong type
func zzLineText(j int) string {
	switch zzKinds[j] {
	case 0:
		return "\n"
	case 1:
		return "  \n"
	case 3:
		return "oops: [1\n"
	}
	alt := zzAlt[j]
	switch j {
	case 0:
		if alt {
			return "ResX: wide\n"
		}
		return "ResX: 160\n"
	case 1:
		if alt {
			return "ResY: tall\n"
		}
		return "ResY: 120\n"
	case 2:
		if alt {
			return "FPS: fast\n"
		}
		return "FPS: 9\n"
	case 3:
		if alt {
			return "FrameSize: big\n"
		}
		return "FrameSize: 39040\n"
	case 4:
		if alt {
			return "Brand: 7\n"
		}
		return "Brand: flir\n"
	case 5:
		if alt {
			return "Model: 35\n"
		}
		return "Model: lepton3.5\n"
	case 6:
		if alt {
			return "CameraSerial: none\n"
		}
		return "CameraSerial: 12345\n"
	}
	if alt {
		return "Firmware: 3\n"
	}
	return "Firmware: 1.2.3\n"
}

func zzStubReadString(r *bufio.Reader, delim byte) (string, error) {
	j := zzNext
	zzNext++
	if j >= zzN {
		if zzPartial && j == zzN {
			return "frag", io.EOF
		}
		return "", io.EOF
	}
	return zzLineText(j), nil
}

func zzStubWriteString(b *bytes.Buffer, s string) (int, error) {
	j := zzNext - 1
	if zzScanStarted {
		// scanner mode: the token just returned, without its line terminator
		j = zzCurTok
		if j < 0 || j >= zzMaxL || s != zzLineTok(j) {
			zzBadWrite = true
			return 0, nil
		}
		zzWritten[j] = true
		return len("x"), nil
	}
	if j < 0 || j >= zzMaxL || s != zzLineText(j) {
		zzBadWrite = true
		return 0, nil
	}
	zzWritten[j] = true
	return len("x"), nil
}

// ---- bufio.Scanner by contract (should the code use one): tokens are the lines
// without their terminator; a Scanner may read ahead of the token it returns,
// and with its 4096-byte buffer it drains streams of this size on the first Scan.
var (
	zzScanStarted bool
	zzScanPos     int
	zzCurTok      int
)

func zzStubNewScanner(r io.Reader) *bufio.Scanner { return &bufio.Scanner{} }

func zzStubScan(s *bufio.Scanner) bool {
	if !zzScanStarted {
		zzScanStarted = true
		zzScanPos = zzNext
		zzNext = zzN // everything up to the end of the stream is now consumed from the reader
	}
	j := zzScanPos
	zzScanPos++
	if j < zzN {
		zzCurTok = j
		return true
	}
	if zzPartial && j == zzN {
		zzCurTok = -2
		return true
	}
	return false
}

func zzLineTok(j int) string {
	if j == -2 {
		return "frag"
	}
	switch zzLineText(j) {
	case "\n":
		return ""
	case "  \n":
		return "  "
	case "oops: [1\n":
		return "oops: [1"
	case "ResX: wide\n":
		return "ResX: wide"
	case "ResX: 160\n":
		return "ResX: 160"
	case "ResY: tall\n":
		return "ResY: tall"
	case "ResY: 120\n":
		return "ResY: 120"
	case "FPS: fast\n":
		return "FPS: fast"
	case "FPS: 9\n":
		return "FPS: 9"
	case "FrameSize: big\n":
		return "FrameSize: big"
	case "FrameSize: 39040\n":
		return "FrameSize: 39040"
	case "Brand: 7\n":
		return "Brand: 7"
	case "Brand: flir\n":
		return "Brand: flir"
	case "Model: 35\n":
		return "Model: 35"
	case "Model: lepton3.5\n":
		return "Model: lepton3.5"
	case "CameraSerial: none\n":
		return "CameraSerial: none"
	case "CameraSerial: 12345\n":
		return "CameraSerial: 12345"
	case "Firmware: 3\n":
		return "Firmware: 3"
	}
	return "Firmware: 1.2.3"
}

func zzStubText(s *bufio.Scanner) string            { return zzLineTok(zzCurTok) }
func zzStubErr(s *bufio.Scanner) error              { return nil }
func zzStubWriteByte(b *bytes.Buffer, c byte) error { return nil }

func zzStubBytes(b *bytes.Buffer) []byte { return nil }

// zzStubLen: number of bytes handed to the buffer so far.
func zzStubLen(b *bytes.Buffer) int {
	n := 0
	for j := 0; j < zzMaxL; j++ {
		if zzWritten[j] {
			n += len(zzLineText(j))
		}
	}
	return n
}

func zzStubTrim(s, cutset string) string {
	if s == "  \n" {
		return "\n"
	}
	if s == "  " {
		return ""
	}
	return s
}

// zzStubTrimSpace: strings.TrimSpace by contract on the ghost line pool (should
// the code use it): blank and spaces-only lines and the empty string trim to
// "", a line loses its terminator, a fragment is unchanged.
func zzStubTrimSpace(s string) string {
	if s == "\n" || s == "  \n" || s == "  " || s == "" {
		return ""
	}
	for j := 0; j < zzMaxL; j++ {
		if s == zzLineText(j) {
			return zzLineTok(j)
		}
	}
	return s
}

func zzStubUnmarshal(in []byte, out interface{}) error {
	for j := 0; j < zzMaxL; j++ {
		if zzWritten[j] && zzKinds[j] == 3 {
			return errors.New("yaml: malformed")
		}
	}
	m := *(out.(*map[string]interface{}))
	for j := 0; j < zzMaxL; j++ {
		if !zzWritten[j] || zzKinds[j] != 2 {
			continue
		}
		alt := zzAlt[j]
		switch j {
		case 0:
			if alt {
				m[zzKey(j)] = "wide"
			} else {
				m[zzKey(j)] = 160
			}
		case 1:
			if alt {
				m[zzKey(j)] = "tall"
			} else {
				m[zzKey(j)] = 120
			}
		case 2:
			if alt {
				m[zzKey(j)] = "fast"
			} else {
				m[zzKey(j)] = 9
			}
		case 3:
			if alt {
				m[zzKey(j)] = "big"
			} else {
				m[zzKey(j)] = 39040
			}
		case 4:
			if alt {
				m[zzKey(j)] = 7
			} else {
				m[zzKey(j)] = "flir"
			}
		case 5:
			if alt {
				m[zzKey(j)] = 35
			} else {
				m[zzKey(j)] = "lepton3.5"
			}
		case 6:
			if alt {
				m[zzKey(j)] = "none"
			} else {
				m[zzKey(j)] = 12345
			}
		case 7:
			if alt {
				m[zzKey(j)] = 3
			} else {
				m[zzKey(j)] = "1.2.3"
			}
		}
	}
	return nil
}

func ZZ_C14_header() {
	L := zzParam("L")
	zzN = zzInt("lines", 0)
	zzAssume(0 <= zzN && zzN <= L)
	zzPartial = zzBool("partial", 0)
	for j := 0; j < L; j++ {
		zzKinds[j] = zzInt("kind", j)
		zzAssume(0 <= zzKinds[j] && zzKinds[j] <= 3)
		zzAlt[j] = zzBool("alt", j)
	}
	var reader *bufio.Reader
	var stream []byte
	var ends [zzMaxL + 1]int // byte offset after line j
	if zzSymbolic() {
		reader = new(bufio.Reader)
	} else {
		for j := 0; j < zzN; j++ {
			stream = append(stream, zzLineText(j)...)
			ends[j] = len(stream)
		}
		if zzPartial {
			stream = append(stream, "frag"...)
		}
		reader = bufio.NewReader(bytes.NewReader(stream))
	}
	// the statement's expectation
	b := -1
	for j := L - 1; j >= 0; j-- {
		if j < zzN && (zzKinds[j] == 0 || zzKinds[j] == 1) {
			b = j
		}
	}
	malformed := false
	for j := 0; j < L; j++ {
		if j < b && zzKinds[j] == 3 {
			malformed = true
		}
	}
	zzReach("stream drawn")
	hdr, err := ReadHeaderInfo(reader)
	if b < 0 {
		zzReach("connection closed before the blank line")
		zzAssert(hdr == nil && err != nil, "C14: a header cut short yields an error, never a partial camera description")
		return
	}
	if malformed {
		zzReach("undecodable header")
		zzAssert(hdr == nil && err != nil, "C14: an undecodable header yields an error")
		return
	}
	zzReach("complete header")
	zzAssert(err == nil && hdr != nil, "C14: a complete header is accepted")
	zzAssert(!zzBadWrite, "C14: exactly the lines read are handed to the YAML decoder")
	has := func(j int) bool { return j < b && j < L && zzKinds[j] == 2 && !zzAlt[j] }
	wantI := func(j, v int) int {
		if has(j) {
			return v
		}
		return 0
	}
	wantS := func(j int, v string) string {
		if has(j) {
			return v
		}
		return ""
	}
	zzAssert(hdr.ResX() == wantI(0, 160) && hdr.ResY() == wantI(1, 120) && hdr.FPS() == wantI(2, 9), "C14: resolution and fps round-trip (0 when absent or of the wrong type)")
	zzAssert(hdr.FrameSize() == wantI(3, 39040), "C14: frame size round-trips")
	zzAssert(hdr.Brand() == wantS(4, "flir") && hdr.Model() == wantS(5, "lepton3.5"), "C14: brand and model round-trip")
	zzAssert(hdr.CameraSerial() == wantI(6, 12345) && hdr.Firmware() == wantS(7, "1.2.3"), "C14: serial and firmware round-trip")
	// nothing beyond the blank line is consumed from the shared reader
	consumed := 0
	if zzSymbolic() {
		consumed = zzNext
	} else {
		rest, _ := io.ReadAll(reader)
		off := len(stream) - len(rest)
		for j := 0; j < zzN; j++ {
			if ends[j] <= off {
				consumed = j + 1
			}
		}
		zzAssert(off == ends[b], "C14: consumes nothing beyond the blank line that ends the header")
	}
	zzAssert(consumed == b+1, "C14: consumes nothing beyond the blank line that ends the header")
}
