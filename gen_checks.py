#!/usr/bin/env python3
# Generates checks/<id>.json (job lists, bounds, documentation) for the symgo driver.
import json, os

MOTION = "github.com/TheCacophonyProject/thermal-recorder/motion"
DETECT_STUB = {f"(*{MOTION}.motionDetector).Detect": "zzStubDetect",
               "(*github.com/TheCacophonyProject/window.Window).Active": "zzStubActive"}
LOG_NOOP = ["(*github.com/TheCacophonyProject/thermal-recorder/loglimiter.LogLimiter).Printf"]
DETECT_REWRITE = ["motion.go:motionDetector.Detect=zzStubDetect"]

COMMON_ASSUME = [
    "go/ssa construction and the symgo SSA->SMT translation are faithful (mitigated by native replay of every counterexample)",
    "solver verdicts of z3 5.1.0 (fallback cvc5 1.0.3, z3 4.8.12) are correct",
]

def mp_jobs(prefix=""):
    step = {"name": "step", "pkg": "motion", "harness": "motion", "entry": "ZZ_MP_step",
            "grid": {"N": [1, 2, 3, 4], "STEPS": [2], "CR": [0]}, "grid_thorough": {"N": [1, 2, 3, 4], "STEPS": [2], "CR": [0]}, "timeout": 300,
            "stubs": DETECT_STUB, "noops": LOG_NOOP, "native_rewrite": DETECT_REWRITE}
    cfgs = [  # fps, minS, maxS, prevS, T
        (1, 0, 0, 0, 1), (2, 1, 2, 1, 1), (1, 2, 3, 1, 2), (1, 1, 1, 1, 2), (3, 1, 1, 0, 2), (2, 0, 1, 1, 0), (1, 2, 3, 1, 0)]
    step_cr = dict(step); step_cr["name"] = "step_cr"
    step_cr["grid"] = {"N": [1, 2], "STEPS": [2], "CR": [1]}
    step_cr["grid_thorough"] = {"N": [1, 2, 3], "STEPS": [2], "CR": [1]}
    step_cr["timeout"] = 600
    # larger rings: single-step induction only (the 2-step queries do not finish within the cap)
    step1 = dict(step); step1["name"] = "step_large"; step1["tier"] = "thorough"
    step1["grid"] = {"N": [5, 6], "STEPS": [1], "CR": [0, 1]}
    step1["timeout"] = 400
    step1["grid_thorough"] = step1["grid"]
    jobs = [step]
    for i, (fps, mn, mx, pv, T) in enumerate(cfgs):
        jobs.append({"name": f"bmc{i}", "pkg": "motion", "harness": "motion", "entry": "ZZ_MP_bmc",
                     "grid": {"fps": [fps], "minS": [mn], "maxS": [mx], "prevS": [pv], "T": [T], "K": [8]},
                     "grid_thorough": {"fps": [fps], "minS": [mn], "maxS": [mx], "prevS": [pv], "T": [T], "K": [12]},
                     "stubs": DETECT_STUB, "noops": LOG_NOOP, "native_rewrite": DETECT_REWRITE,
                     "tier": "" if i < 3 else "thorough"})
    jobs.append(step_cr)
    jobs.append(step1)
    return jobs

MP_EXPL = ("Bounded symbolic verification of motion/motionprocessor.go + motion/frameloop.go (SSA->SMT). "
           "(1) Inductive step: an arbitrary MotionProcessor state satisfying the stated invariant Inv_MP (ring phase n=q*N+c, mark, counters, "
           "min/max/trigger frames, ghost 'last written' and 'latest motion index' all symbolic) processes one event in {valid frame, bad frame, camera reset} "
           "with symbolic motion bit, window gate, disk-check and start outcomes; the assertions tagged with this property and Inv_MP of the successor are proved, "
           "which covers streams of any length for each ring capacity N of the grid. "
           "(2) BMC: K symbolic events from the real NewMotionProcessor at concrete configurations against a monitor written from the property statements only. "
           "Detect is replaced by a nondeterministic bit (the property quantifies over every motion pattern); window.Active by a nondeterministic gate.")
MP_STUBS = ["(*motionDetector).Detect -> nondeterministic bool per frame (natively: overlay rename + forwarder)",
            "(*window.Window).Active -> nondeterministic bool per call (natively: Window.Now hooked to a clock inside/outside a 10:00-11:00 window)",
            "(*loglimiter.LogLimiter).Printf -> no-op", "sink = monitored recorder.Recorder stub (injection interface)", "frame parser = harness closure tagging frames with sequence numbers"]
MP_OUT = ["ring capacities N above the grid (N=7 and above do not finish within the solver cap: the step lemma is registered for N <= 4 with two events and N <= 6 with one)", "frame counts / thresholds >= 2^31", "real window.Active calendar arithmetic (every sequence of gate outcomes is covered instead)",
          "checkDiskSpace's statfs syscall (every sequence of check outcomes is covered instead)", "write/stop faults of the sink (C12)"]

specs = {}
for pid in ["C01", "C02", "C03", "C04"]:
    specs[pid] = {"property": pid, "explanation": MP_EXPL, "assumptions": COMMON_ASSUME + [
        "Inv_MP characterises the reachable states (cross-checked by the BMC jobs from the real constructor)",
        "C04: a motion run is counted over accepted frames since the previous recording stopped (the statement's own anchor: counter reset on any motionless frame and on stop)"],
        "outside_claim": MP_OUT, "stubs_doc": MP_STUBS, "jobs": mp_jobs()}

LL = "github.com/TheCacophonyProject/thermal-recorder/loglimiter"
specs["C20"] = {"property": "C20",
    "explanation": "Bounded symbolic verification of loglimiter/loglimiter.go (SSA->SMT). Inductive step: an arbitrary limiter state (nothing printed yet, or any previous message out of a pool of 3 distinct strings and any previous instant), symbolic interval > 0, one Print or Printf of a symbolic message at a symbolic instant: the message is suppressed iff it equals the last printed message and now - lastPrint < interval (exact boundary included), a suppressed repeat leaves the state unchanged, a printed message is logged once and unmodified and becomes the reference. time.Time is modelled as 128-bit nanoseconds with Sub's int64 saturation (zero Time start). BMC: K calls from New() with a non-decreasing clock against a monitor written from the statement.",
    "assumptions": COMMON_ASSUME + ["instants within +-146 years of 1970", "messages drawn from a pool of 3 distinct strings (equality is all the limiter observes)", "fmt.Sprintf(\"%s\", s) = s (formatting is not the subject)"],
    "outside_claim": ["message contents beyond equality", "time.Time monotonic-clock readings (harness clock has none)"],
    "stubs_doc": ["log.Print -> harness recorder (natively: log.SetOutput to a buffer)", "nowFunc -> harness clock", "fmt.Sprintf -> identity on \"%s\""],
    "jobs": [
      {"name": "step", "pkg": "loglimiter", "harness": "loglimiter", "entry": "ZZ_C20_step", "grid": {}, "stubs": {"log.Print": "zzLogPrint"}, "fixed_now": 1600000000000000000},
      {"name": "bmc", "pkg": "loglimiter", "harness": "loglimiter", "entry": "ZZ_C20_bmc", "grid": {"K": [5]}, "grid_thorough": {"K": [8]}, "stubs": {"log.Print": "zzLogPrint"}, "fixed_now": 1600000000000000000}
    ]}

def thr_jobs():
    cfgs = [  # name, bucketS, refillNs, minSec, fps, fi, pow2, quick
        ("a", 3, 2**33, 1, 8, 2**30, True, True),
        ("b", 2, 2**33, 1, 1, 2**33, True, True),
        ("c", 1, 7 * 10**9, 1, 1, 7 * 10**9, False, True),
        ("d", 600, 600 * 10**9, 15, 9, 4444444444, False, False),
        ("e", 2, 3 * 10**9, 1, 2, 1500000000, False, False),
        ("f", 10, 5 * 2**30, 3, 1, 1789569706, False, False),
        ("g", 1, 2**33, 2, 1, 2**32, True, True),  # bucket smaller than the minimum clip: nothing may ever be recorded
        ("h", 1, 2**33, 1, 2, 2**32, True, True),  # fps > 1 with a small bucket (partial takes of a second's worth)
    ]
    jobs = []
    for (nm, b, r, m, f, fi, pow2, quick) in cfgs:
        g = {"bucketS": [b], "refillNs": [r], "minSec": [m], "fps": [f], "fi": [fi], "STEPS": [2]}
        jobs.append({"name": "step_" + nm, "pkg": "throttle", "harness": "throttle", "entry": "ZZ_T_step", "grid": g,
                     "solvers": ["z3-new", "cvc5int", "cvc5"] if pow2 else ["cvc5int", "z3-new"], "timeout": 120,
                     "tier": "" if quick else "thorough"})
    for (nm, b, r, m, f, fi, pow2, quick) in cfgs:
        if b * f > 2:
            continue
        g = dict({"bucketS": [b], "refillNs": [r], "minSec": [m], "fps": [f], "fi": [fi]})
        gq = dict(g); gq["K"] = [8 if pow2 else 6]
        gt = dict(g); gt["K"] = [9 if pow2 else 7]
        jobs.append({"name": "bmc_" + nm, "pkg": "throttle", "harness": "throttle", "entry": "ZZ_T_bmc", "grid": gq, "grid_thorough": gt,
                     "solvers": ["z3-new", "cvc5int"] if pow2 else ["cvc5int", "z3-new"], "timeout": 300,
                     "tier": "" if quick else "thorough"})
    return jobs

THR_EXPL = ("Bounded symbolic verification of throttle/throttled_recorder.go together with the real github.com/juju/ratelimit token bucket (SSA->SMT). "
            "(1) Potential-function step lemma: from an arbitrary invariant state (symbolic availableTokens, latestTick, current tick, recording flag, frames since the wrapped start) "
            "one request in {Start, Write, Stop} is executed with each clock read returning an arbitrary later instant k*fillInterval+r; it proves that forwarded frames are paid for by the potential "
            "Psi = min(cap, a+(T-l)*quantum) + [a=cap and T>l], that the invariant is preserved, and the C06 behaviour (forwarding iff Available >= minimum clip, clean cut, pairing, one event per suppressed start or cut, remembered background/threshold on restart). "
            "Telescoping the potential inequality over any interval gives frames <= cap + 1 + ticks*quantum <= bucket + refill earned + 2 (paper step). "
            "(2) BMC: K well-formed client requests from the real constructor with arbitrary clock advances; the interval bound is asserted directly for every sub-interval (no potential function). "
            "(3) Composition: the real MotionProcessor feeding the real ThrottledRecorder over the real bucket for K frames with arbitrary motion bits and clock advances of whole fill intervals; the interval bound is asserted on the frames that reach the storage sink (pre-trigger frames included). "
            "Constructor facts (capacity = bucket-size*fps, min clip = minSeconds*fps, quantum 1, rate within 1%) are evaluated on the concrete constructor result per configuration.")
THR_ASSUME = COMMON_ASSUME + ["well-formed client (Start only when the client has no recording, Write/Stop only inside one): that is what MotionProcessor issues (C12)",
    "clock instants non-decreasing, ticks < 2^20 in the step lemma (2^44 ns advances in BMC)", "configurations are concrete per job (they size the bucket and fix fillInterval); quantum = 1 asserted for each",
    "the telescoping from the per-step potential inequality to the interval statement is a paper argument (DESIGN.md C05)"]
THR_OUT = ["configurations outside the job grid", "ThrottledEventRecorder's D-Bus call (I/O)", "the main.go wiring of minSeconds = MinSecs+PreviewSecs (claimed in the wiring job once built)"]
THR_STUBS = ["ratelimit.Clock -> harness clock handing out pre-drawn non-decreasing instants", "wrapped recorder.Recorder and ThrottledEventListener -> monitored stubs (injection interfaces)", "log.Print* -> no-op"]
COMP_JOB = {"name": "comp", "pkg": "motion", "harness": "motion", "entry": "ZZ_C05_comp",
            "grid": {"fps": [1], "minS": [1], "maxS": [3], "prevS": [1], "T": [1], "K": [8], "bucketS": [2], "refillNs": [2**33], "fi": [2**32]},
            "grid_thorough": {"fps": [1], "minS": [1], "maxS": [3], "prevS": [1], "T": [1, 2], "K": [9], "bucketS": [2], "refillNs": [2**33], "fi": [2**32]},
            "stubs": DETECT_STUB, "noops": LOG_NOOP, "native_rewrite": DETECT_REWRITE, "timeout": 300}
for pid in ["C05", "C06"]:
    specs[pid] = {"property": pid, "explanation": THR_EXPL, "assumptions": THR_ASSUME, "outside_claim": THR_OUT, "stubs_doc": THR_STUBS, "jobs": thr_jobs() + [COMP_JOB]}

def aux_jobs(faults_only=None):
    jobs = []
    def J(name, entry, grid, gridt=None, tier=""):
        j = {"name": name, "pkg": "motion", "harness": "motion", "entry": entry, "grid": grid, "stubs": DETECT_STUB, "noops": LOG_NOOP,
             "native_rewrite": DETECT_REWRITE, "tier": tier}
        if gridt:
            j["grid_thorough"] = gridt
        jobs.append(j)
    base = {"fps": [1], "minS": [1], "maxS": [2], "prevS": [1], "T": [1]}
    for fl in ([1, 0] if faults_only is None else [faults_only]):
        tag = "faults" if fl else "nofaults"
        J(f"step_{tag}", "ZZ_AUX_step", {"N": [1, 2, 3], "CR": [0, 1], "FAULTS": [fl]}, {"N": [1, 2, 3, 4, 5, 6], "CR": [0, 1], "FAULTS": [fl]})
        g = dict(base); g.update({"K": [6], "CR": [0, 1], "FAULTS": [fl], "BAD": [0]})
        gt = dict(base); gt.update({"K": [9], "CR": [0, 1], "FAULTS": [fl], "BAD": [0]})
        J(f"bmc_{tag}", "ZZ_AUX_bmc", g, gt)
        g2 = {"fps": [2], "minS": [0], "maxS": [1], "prevS": [0], "T": [2], "K": [8], "CR": [1], "FAULTS": [fl], "BAD": [0]}
        J(f"bmc2_{tag}", "ZZ_AUX_bmc", g2, None, "thorough")
    return jobs

AUX_EXPL = ("Bounded symbolic verification of motion/motionprocessor.go (Process, process, processConstantRecorder, stopConstantRecorder, processSnapshot, start/stopRecording, recordPreTriggerFrames) "
            "with three monitored sinks. Step lemma: from an arbitrary state satisfying Inv_MP extended with the continuous/test-recorder invariant (sink open iff crFrames>0 / SnapshotRecording, counters in range), one event "
            "in {valid frame, bad frame, reset} with a pending test-recording request and, for C12, arbitrary failures of every start / k-th write / stop / disk check on each sink. BMC: K events incl. test-recording requests from the real constructor. "
            "Monitor semantics follow the real CPTVFileRecorder: a failed start leaves the sink closed, any stop closes it (even when it returns an error), a failed write leaves it open. Reachable panics are reported as violations.")
specs["C12"] = {"property": "C12", "explanation": AUX_EXPL, "assumptions": COMMON_ASSUME + [
    "sink failure model = return values of the recorder.Recorder interface; the real CPTVFileRecorder's write-after-close nil dereference is tied to the protocol violation by the C12 wiring job in package main (when present)",
    "a redundant StopRecording on a closed sink is not counted as a violation (the statement restricts writes and starts)"],
    "outside_claim": MP_OUT[:4] + ["ring capacities above the grid", "faults inside go-cptv (I/O)"], "stubs_doc": MP_STUBS, "jobs": aux_jobs(1) + aux_jobs(0)[:2]}
# C04 also quantifies over storage outcomes: the "no start while a recording is open / start iff the
# condition holds" obligations are additionally decided under arbitrary start/write/stop faults (AUX harness)
def _c04_fault_jobs():
    out = []
    for j in aux_jobs(1):
        if j["name"] == "step_faults":
            j = dict(j); j["name"] = "faults_step"; j["grid"] = {"N": [1, 2], "CR": [0], "FAULTS": [1]}; j["grid_thorough"] = {"N": [1, 2, 3, 4], "CR": [0], "FAULTS": [1]}
            out.append(j)
        elif j["name"] == "bmc_faults":
            j = dict(j); j["name"] = "faults_bmc"; j["grid"] = dict(j["grid"]); j["grid"]["CR"] = [0]; j["grid_thorough"] = dict(j["grid_thorough"]); j["grid_thorough"]["CR"] = [0]
            out.append(j)
    return out
specs["C04"]["jobs"] = specs["C04"]["jobs"] + _c04_fault_jobs()
specs["C04"]["outside_claim"] = [x for x in MP_OUT if not x.startswith("write/stop faults")] + ["consequences of write/stop faults other than the start condition and the sink protocol (C12)"]
specs["C04"]["explanation"] = MP_EXPL + " (3) For C04 the start condition and 'no start while a recording is open' are also decided under arbitrary failures of every start, k-th write, stop and disk check of the sink (AUX step lemma and BMC, FAULTS=1)."

specs["C17"] = {"property": "C17", "explanation": AUX_EXPL + " For C17 the no-fault, no-bad-frame instances are used: the continuous sink receives every accepted frame exactly once in order, a file is closed exactly when it holds max-secs*fps+1 frames, independent of motion bit, window gate, disk check and resets; a pending request starts a test recording with the next processed frame, which is closed after exactly 21 frames (induction on snapshotFrames); the C01-C04 assertions on the motion sink hold for every test-recording state (ZZ_MP_step is proved for arbitrary StartSnapshot/SnapshotRecording in the C01 check).",
    "assumptions": COMMON_ASSUME + ["non-overlapping test-recording requests, no storage faults, no bad frames (the property's quantifier)", "throttling independence: the continuous sink is handed to NewMotionProcessor unwrapped (wiring job in package main, when present)"],
    "outside_claim": MP_OUT[:4] + ["deleteExcessRecordings / statfs (I/O)", "SetAsConstantRecorder directory handling (I/O)"], "stubs_doc": MP_STUBS, "jobs": aux_jobs(0)}

def det_job(name, entry, grid, gridt=None, tier="", uf=False, solvers=None, timeout=120):
    j = {"name": name, "pkg": "motion", "harness": "motion", "entry": entry, "grid": grid, "noops": LOG_NOOP, "tier": tier, "float_uf": uf, "timeout": timeout}
    if gridt:
        j["grid_thorough"] = gridt
    if solvers:
        j["solvers"] = solvers
    return j

c07 = []
shapes = [(1, 1, 0), (2, 2, 0), (3, 3, 1), (3, 3, 0), (4, 3, 1), (4, 4, 1), (4, 4, 0), (5, 5, 2), (5, 5, 1)]
for i, (W, H, e) in enumerate(shapes):
    quick = (W, H, e) in [(1, 1, 0), (2, 2, 0), (3, 3, 1), (3, 3, 0)]
    gq = {"W": [W], "H": [H], "e": [e], "g": [1, 2], "F": [5], "R": [-1, 2, 3], "M": [-1]}
    gt = {"W": [W], "H": [H], "e": [e], "g": [1, 2, 3], "F": [7], "R": [-1, 1, 3, 4], "M": [-1]}
    c07.append(det_job(f"bmc_{W}x{H}e{e}", "ZZ_C07_bmc", gq, gt, "" if quick else "thorough"))
specs["C07"] = {"property": "C07",
    "explanation": "Bounded symbolic verification of motion/motion.go (NewMotionDetector, Detect, pixelsChanged, setFloor, absDiffFrames, warmerDiffFrames, absDiff, warmerDiff, hasMotion, CountPixels, CountPixelsTwoCompare, isAffectedByFFC, Reset) and both internal FrameLoops, differential against a reference model written from the statement (plain frame list; compare frame max(t-gap, first); per-pixel predicate; one-/two-diff counting; interior only). All pixel values (0..65535) of all F frames, temp-thresh, delta-thresh, count-thresh >= 1 and both mode flags are symbolic in one query per frame, so every boundary (= vs >) is inside the quantifier; an optional camera Reset before frame R. Helper lemmas (the just-written diff frame matches the per-pixel predicate) are proved first and then assumed; if one is not proved the instance is re-run without them.",
    "assumptions": COMMON_ASSUME + ["FFC-free streams (TimeOn-LastFFCTime >= 10 s on every frame): the property's quantifier", "Verbose=false (debug tracker off)"],
    "outside_claim": ["resolutions above 5x5, frame-compare-gap > 3 and streams longer than F = gap+4 frames (ring fill, first wrap and mark expiry are inside)", "Verbose=true debug tracker (float averaging in logging only)"],
    "stubs_doc": ["log.Print* -> no-op"], "jobs": c07}

c08 = []
for (W, H, e, quick) in [(3, 3, 1, True), (2, 2, 0, True), (4, 4, 1, False), (5, 4, 1, False), (5, 5, 2, True), (5, 5, 1, False)]:
    t = "" if quick else "thorough"
    base = {"W": [W], "H": [H], "e": [e], "g": [1, 2], "F": [5]}
    baset = {"W": [W], "H": [H], "e": [e], "g": [1, 2, 3], "F": [7]}
    for nm, extra in [("border_fixed", {"DYN": [0], "CLAIM": [1], "PV": [0]}), ("border_dyn", {"DYN": [1], "CLAIM": [1], "PV": [0, 2]}), ("cold_fixed", {"DYN": [0], "CLAIM": [2], "PV": [0]})]:
        if nm == "cold_fixed" and (W - 2 * e) * (H - 2 * e) > 4:
            continue  # interiors above 4 pixels: the solvers do not decide the sub-threshold claim within the cap
        gq = dict(base); gq.update(extra)
        gt = dict(baset); gt.update(extra)
        c08.append(det_job(f"{nm}_{W}x{H}e{e}", "ZZ_C08_bmc", gq, gt, t, uf=True, timeout=300))
specs["C08"] = {"property": "C08",
    "explanation": "Self-composition on the real motion detector (SSA->SMT): two detectors built identically are fed F frames that are equal except (claim 1) in the edge border, where both streams carry independent arbitrary values, with a fixed or a dynamic threshold, or (claim 2, fixed threshold) at interior pixels flagged 'cold' where both values are arbitrary but <= temp-thresh. Telemetry is arbitrary (FFC allowed) and shared. After every frame the detection results are asserted equal; with the dynamic threshold also tempThresh and the background interior. All thresholds, mode flags, min/max bounds and pixels are symbolic. Float operations of the dynamic threshold are encoded as uninterpreted functions: equality proved under UF holds for every interpretation. Recording boundaries are then equal because MotionProcessor consumes only the Detect bit (C01-C04 step lemmas).",
    "assumptions": COMMON_ASSUME + ["floats as uninterpreted functions (sound for 'holds'; a UF counterexample is reported only if the native replay reproduces it)"],
    "outside_claim": ["shapes above 5x5, gap > 3, more than 7 frames", "sub-threshold claim for interiors above 4 pixels (not decided within the solver cap)", "Verbose=true debug tracker"], "stubs_doc": ["log.Print* -> no-op"], "jobs": c08}

c09 = []
for (W, H, e, quick) in [(2, 2, 0, True), (3, 3, 1, True), (4, 4, 1, False)]:
    t = "" if quick else "thorough"
    for g in [1, 2, 3]:
        if quick and g == 3:
            tt = "thorough"
        else:
            tt = t
        L = g + 5
        pats = [1, 3, 5, 7, 9, 1 << 2, (1 << 2) | (1 << 4)]
        pre = sorted(set([0, 1, g + 2]))
        for dyn in [0, 1]:
            gq = {"W": [W], "H": [H], "e": [e], "g": [g], "DYN": [dyn], "PV": [0] if dyn == 0 else [0, 2], "PRE": pre, "L": [L], "PAT": pats[:4] if tt == "" else pats, "RESET": [0]}
            c09.append(det_job(f"ffc_{W}x{H}e{e}g{g}d{dyn}", "ZZ_C09_bmc", gq, None, tt, uf=True))
        gq = {"W": [W], "H": [H], "e": [e], "g": [g], "DYN": [0], "PV": [0], "PRE": pre, "L": [g + 4], "PAT": [0], "RESET": [1]}
        c09.append(det_job(f"reset_{W}x{H}e{e}g{g}", "ZZ_C09_bmc", gq, None, tt, uf=True))
specs["C09"] = {"property": "C09",
    "explanation": "Bounded symbolic verification of the real motion detector around flat-field corrections and camera resets (SSA->SMT). Two detectors are first fed PRE clean frames whose pixel content is independent between them (arbitrary pre-FFC history), then L frames identical in both whose FFC pattern is a concrete bit mask (single FFC frame, several, back-to-back periods separated by 0..2 clean frames, FFC in the very first frames) with symbolic telemetry inside/outside the 10 s window; or a camera Reset (fixed threshold). Asserted: (a) every frame inside the window and the frame directly following it reports no motion in both runs; (b) from the first clean frame after the period (or after the reset) on, both runs agree on detection, and with the dynamic threshold on tempThresh and the background interior - i.e. nothing depends on any frame from before the period. Floats as uninterpreted functions.",
    "assumptions": COMMON_ASSUME + ["floats as uninterpreted functions", "pre-period frames are FFC-free"],
    "outside_claim": ["shapes above 4x4, gap > 3, PRE > gap+2, periods longer than the listed patterns (pattern bit masks are concrete per query)", "dynamic threshold across Reset (the property restricts reset-independence to the fixed threshold)"], "stubs_doc": ["log.Print* -> no-op"], "jobs": c09}

SITES_STUB = {f"(*{MOTION}.motionDetector).updateBackground": "zzStubUpdateBackground", f"(*{MOTION}.motionDetector).calculateThreshold": "zzStubCalcThreshold"}
c15 = [
    det_job("update", "ZZ_C15_update", {"W": [1, 2, 3], "H": [1], "e": [0], "MEAN4": [0]}, None),
    det_job("update_b", "ZZ_C15_update", {"W": [3, 4], "H": [3], "e": [1], "MEAN4": [0]}, {"W": [3, 4, 5], "H": [3, 4, 5], "e": [1], "MEAN4": [0]}),
    det_job("update_c", "ZZ_C15_update", {"W": [5], "H": [5], "e": [2], "MEAN4": [0]}, {"W": [5, 6], "H": [5], "e": [2], "MEAN4": [0]}),
    det_job("clamp", "ZZ_C15_clamp", {}, None),
    det_job("detect1", "ZZ_C15_detect", {"W": [1], "H": [1], "e": [0]}, None),
    det_job("detect1b", "ZZ_C15_detect", {"W": [3], "H": [3], "e": [1]}, None),
    det_job("detect1c", "ZZ_C15_detect", {"W": [5], "H": [5], "e": [2]}, None, "thorough"),
]
sites = det_job("sites", "ZZ_C15_sites", {}, None)
sites["stubs"] = SITES_STUB
sites["native_rewrite"] = ["motion.go:motionDetector.updateBackground=zzStubUpdateBackground", "motion.go:motionDetector.calculateThreshold=zzStubCalcThreshold"]
c15.append(sites)
c15.append([j for j in thr_jobs() if j["name"] == "step_a"][0])
_a = dict([j for j in aux_jobs(1) if j["name"] == "step_faults"][0]); _a["grid"] = {"N": [1, 2], "CR": [0], "FAULTS": [1]}
_m = dict(mp_jobs()[0]); _m["grid"] = {"N": [1, 2], "STEPS": [2], "CR": [0]}
c15.append(_a)
c15.append(_m)
specs["C15"] = {"property": "C15",
    "explanation": "Bounded symbolic verification of the dynamic-threshold code of motion/motion.go with SMT FloatingPoint semantics (RNE; float->uint16 conversion RTZ). Lemmas, each from an arbitrary background state (all background pixels, float32 weights >= 0, frame counters, previous-FFC flag, thresholds symbolic): (update) after updateBackground every interior background pixel is <= the new frame's pixel, equals it after an FFC or on (re)seeding (backgroundFrames 0), weights stay non-negative, every border pixel equals the nearest interior pixel, and for 1- and 2-pixel interiors the returned average is exactly sum/n; (clamp) calculateThreshold yields trunc(avg) limited to [temp-thresh-min, temp-thresh-max] for every avg in [0,65536) and every unset/set combination with min <= max; (sites) with updateBackground and calculateThreshold replaced by recording stubs, Detect changes the threshold only via calculateThreshold applied to the average returned by updateBackground in the same call, never on an FFC-affected frame or with a fixed threshold, and passes the previous-FFC flag; (detect) end-to-end cross-check for 1-pixel interiors. That the background/threshold in force are handed to the recorder at the trigger, and remembered for throttle restarts, is asserted in the C01 and C06 harnesses (labels tagged C15).",
    "assumptions": COMMON_ASSUME + ["weights are non-negative non-NaN float32 (they start at 0 and are only reset to 0 or incremented and capped)", "min <= max when both bounds are set"],
    "outside_claim": ["exactness of the float64 mean for interiors with more than 2 pixels (the 4-pixel case was attempted with a 15 min cap per solver and does not finish); the mean is then covered by the structural 'sites' lemma plus the per-pixel lemmas", "shapes above 6x5"],
    "stubs_doc": ["sites job only: updateBackground / calculateThreshold -> recording stubs (natively: overlay rename + forwarder)", "log.Print* -> no-op"], "jobs": c15}

L3 = "github.com/TheCacophonyProject/lepton3"
pshapes = {"W": [2, 3, 4], "H": [2, 3], "e": [0, 1]}
pshapes_t = {"W": [2, 3, 4, 5, 6], "H": [2, 3, 4, 5], "e": [0, 1, 2]}
pskip = [{"W": 2, "e": 1}, {"H": 2, "e": 1}, {"W": 2, "e": 2}, {"W": 3, "e": 2}, {"W": 4, "e": 2}, {"H": 2, "e": 2}, {"H": 3, "e": 2}, {"H": 4, "e": 2}]
c13 = [
    {"name": "boson", "pkg": "cmd/thermal-recorder", "harness": "main", "entry": "ZZ_C13_boson", "grid": pshapes, "grid_thorough": pshapes_t, "skip": pskip},
    {"name": "lepton", "pkg": "cmd/thermal-recorder", "harness": "main", "entry": "ZZ_C13_lepton", "grid": pshapes, "grid_thorough": pshapes_t, "skip": pskip,
     "stubs": {L3 + ".ParseTelemetry": "zzStubParseTelemetry"}, "allow_pkgs": [L3]},
] + mp_jobs()[:3] + [j for j in aux_jobs(1) if j["name"].startswith("bmc_")] + [
    {"name": "bmc_badframes", "pkg": "motion", "harness": "motion", "entry": "ZZ_AUX_bmc",
     "grid": {"fps": [1], "minS": [1], "maxS": [2], "prevS": [1], "T": [1], "K": [6], "CR": [0, 1], "FAULTS": [0], "BAD": [1]},
     "grid_thorough": {"fps": [1], "minS": [1], "maxS": [2], "prevS": [1], "T": [1], "K": [9], "CR": [0, 1], "FAULTS": [0], "BAD": [1]},
     "stubs": DETECT_STUB, "noops": LOG_NOOP, "native_rewrite": DETECT_REWRITE}]
specs["C13"] = {"property": "C13",
    "explanation": "Bounded symbolic verification (SSA->SMT). Parsers: convertRawBosonFrame (cmd/thermal-recorder/boson.go) and the pixel loop of lepton3.ParseRawFrame are executed on arbitrary raw bytes for each shape/edge of the grid into a slot holding arbitrary stale data: the result is a *lepton3.BadFrameErr iff some pixel outside the edge border is zero (little-/big-endian words respectively); otherwise nil and every pixel equals its raw word; Boson telemetry is 'no recent FFC'. Processor: in the MotionProcessor step lemma (shared with C01) the 'bad frame' event - the parser scribbles into the current slot and returns an error - is shown to return the error, write nothing to any sink, never call the detector, close a motion recording in progress with exactly one stop, leave the ring phase unchanged (so the scribbled slot is the one the next frame overwrites) and keep the invariant; BMC jobs with bad frames from the real constructor (incl. continuous/test sinks) cross-check.",
    "assumptions": COMMON_ASSUME + ["Lepton telemetry decoding (lepton3.ParseTelemetry: encoding/binary.Read via reflection) is stubbed to succeed; natively the real one runs"],
    "outside_claim": ["Lepton telemetry word decoding", "handleConn's event reporting / camera restart request (D-Bus I/O)", "shapes above 6x5"],
    "stubs_doc": MP_STUBS + ["lepton3.ParseTelemetry -> returns nil (engine only)"], "jobs": c13}

TR = "github.com/TheCacophonyProject/thermal-recorder"
CONN_STUBS = {
    "bufio.NewReader": "zzStubNewReader", TR + "/headers.ReadHeaderInfo": "zzStubReadHeaderInfo",
    f"(*{TR}/cmd/thermal-recorder.Config).LoadMotionConfig": "zzStubLoadMotionConfig", "gopkg.in/yaml.v2.Marshal": "zzStubMarshal",
    "os.Mkdir": "zzStubMkdir", "io.ReadFull": "zzStubReadFull", "(*bufio.Reader).Read": "zzStubRead", f"(*{TR}/motion.MotionProcessor).Process": "zzStubProcess",
    f"(*{TR}/motion.MotionProcessor).Reset": "zzStubReset", TR + "/leptondController.RestartCamera": "zzStubRestartCamera",
    TR + "/leptondController.SetAutoFFC": "zzStubSetAutoFFC"}
CONN_REWRITE = ["config.go:Config.LoadMotionConfig=zzStubLoadMotionConfig", "/motion/motionprocessor.go:MotionProcessor.Process=@ZZHookProcess",
                "/motion/motionprocessor.go:MotionProcessor.Reset=@ZZHookReset", "/leptondController/leptondController.go:RestartCamera=@ZZHookRestartCamera"]
def conn_jobs():
    jobs = []
    base = {"minS": [2], "maxS": [7], "prevS": [3], "fps": [5], "T": [1], "bucketS": [10], "refillS": [10]}
    def J(name, extra, extra_t=None, tier=""):
        g = dict(base); g.update(extra)
        j = {"name": name, "pkg": "cmd/thermal-recorder", "harness": "main", "entry": "ZZ_CONN", "grid": g, "stubs": CONN_STUBS,
             "noops": [TR + "/cmd/thermal-recorder.logConfig", "github.com/TheCacophonyProject/event-reporter/eventclient.AddEvent"],
             "init_pkgs": ["io"], "fixed_now": 1600000000000000000, "allow_pkgs": [L3], "native_rewrite": CONN_REWRITE, "tier": tier, "timeout": 300, "exec_budget_s": 90}
        if extra_t:
            gt = dict(base); gt.update(extra_t); j["grid_thorough"] = gt
        jobs.append(j)
    J("conn", {"K": [3], "THR": [1], "CR": [1], "MODEL": [2]}, {"K": [4], "THR": [1], "CR": [1], "MODEL": [2]})
    jobs[-1]["exec_budget_s"] = 300
    J("conn_k1", {"K": [1], "THR": [1], "CR": [1], "MODEL": [2]})
    jobs[-1]["exec_budget_s"] = 240
    J("conn_wiring", {"K": [0], "THR": [0, 1], "CR": [0, 1], "MODEL": [0, 1, 2, 3]})
    return jobs

HDR_STUBS = {"(*bufio.Reader).ReadString": "zzStubReadString", "(*bytes.Buffer).WriteString": "zzStubWriteString", "(*bytes.Buffer).Bytes": "zzStubBytes", "(*bytes.Buffer).Len": "zzStubLen", "(*bytes.Buffer).WriteByte": "zzStubWriteByte",
             "bufio.NewScanner": "zzStubNewScanner", "(*bufio.Scanner).Scan": "zzStubScan", "(*bufio.Scanner).Text": "zzStubText", "(*bufio.Scanner).Err": "zzStubErr",
             "strings.Trim": "zzStubTrim", "strings.TrimSpace": "zzStubTrimSpace", "gopkg.in/yaml.v1.Unmarshal": "zzStubUnmarshal"}
CONN_EXPL = ("handleConn (cmd/thermal-recorder/main.go) is executed symbolically from its real SSA with the socket, the header parser, the config loader, YAML, D-Bus calls and "
             "MotionProcessor.Process/Reset replaced by contract stubs: io.ReadFull reads from a ghost byte stream made of K items (8-byte frames with arbitrary content, or the 5-byte 'clear' marker, kinds symbolic) followed by a fragment of 0..7 arbitrary bytes (connection cut at any point); "
             "Process returns nil / BadFrameErr / another error nondeterministically. Asserted: one Process call per complete frame with exactly its bytes, one Reset(headerInfo) per marker, in stream order (alignment kept), an error when the stream ends, a camera restart request exactly for bad frames; "
             "and, on the objects the real constructors built (throttle.NewThrottledRecorder, ratelimit bucket, motion.NewMotionProcessor, NewCPTVFileRecorder all executed for real at a concrete configuration with distinct values): the wiring of the three sinks, minimum clip = (min+preview)*fps, bucket size, frame limits, ring size and the CPTV header fields. "
             "Native replay runs the real handleConn over a net.Conn that delivers the same bytes in small segments, with Process/Reset/RestartCamera forwarded through hook variables injected by overlay.")
specs["C14"] = {"property": "C14",
    "explanation": "Bounded symbolic verification (SSA->SMT) of the frame-socket protocol, in the parts within reach. (1) headers.ReadHeaderInfo's line loop over a ghost stream of up to L lines (kinds: blank, spaces-only, well-formed field line of the right or the wrong type, malformed YAML; EOF after any line, optionally followed by an unterminated fragment) with bufio.ReadString / bytes.Buffer / strings.Trim / yaml.Unmarshal replaced by contract stubs: reading stops exactly at the first blank line (nothing beyond it is consumed), EOF before it yields (nil, err) and never a partial header, a YAML error yields (nil, err), and each of the eight fields equals the value under its key constant (0/\"\" when absent or of the wrong type). Natively the same stream is real bytes through the real bufio.Reader and yaml.v1. (2) " + CONN_EXPL,
    "assumptions": COMMON_ASSUME + ["no frame begins with the bytes 'clear' (in-band protocol: neither daemon can tell such a frame from a marker)", "all segmentations of the byte stream into reads are discharged by the documented contracts of io.ReadFull / bufio.Reader.ReadString (trusted stdlib), and exercised natively only for the replayed segmentation", "frame size 8 bytes, K <= 3 (quick) / 4 (thorough) items, L <= 5 / 7 header lines"],
    "outside_claim": ["the YAML encode (leptond, yaml.v1 Marshal) -> decode round-trip of arbitrary camera descriptions (reflection-driven emitter/parser)", "agreement of cmd/leptond's header keys and marker constant with the recorder's (concrete facts; not encoded)", "thermal-writer's use of the header (C18)"],
    "stubs_doc": ["bufio/bytes/strings/yaml callees of ReadHeaderInfo -> contract stubs over a ghost line stream (engine only)", "io.ReadFull -> contract stub over a ghost byte stream (engine only)", "MotionProcessor.Process/Reset, leptondController.RestartCamera -> recording stubs (natively via overlay hook variables)", "Config.LoadMotionConfig -> fixed motion config; yaml.v2.Marshal, os.Mkdir, SetAutoFFC, eventclient.AddEvent, logConfig -> inert"],
    "jobs": [{"name": "header", "pkg": "headers", "harness": "headers", "entry": "ZZ_C14_header", "grid": {"L": [5]}, "grid_thorough": {"L": [7]}, "stubs": HDR_STUBS, "init_pkgs": ["io"]}] + conn_jobs()}
specs["C11"] = {"property": "C11",
    "explanation": "Claimed in part (the repository's own share of the path; the codec round-trip is outside, see outside_claim). " + CONN_EXPL,
    "assumptions": COMMON_ASSUME + ["one concrete configuration with pairwise distinct values per job (it sizes buckets and rings)"],
    "outside_claim": ["pixel/telemetry round-trip through go-cptv's compressor and reader (math.Log2 bit widths, bit packing, gzip): not decided by this machinery", "config.toml text -> viper/mapstructure (reflection) and YAML text", "the header handed to WriteHeader at StartRecording (MotionConfig + triggeredthresh, BackgroundFrame): go-cptv file writer is I/O"],
    "stubs_doc": ["see C14"], "jobs": conn_jobs()}
CP = "github.com/TheCacophonyProject/go-cptv"
START_JOB = {"name": "start_header", "pkg": "cmd/thermal-recorder", "harness": "main", "entry": "ZZ_C11_start", "grid": {"th1": [2900], "th2": [3117, 0]},
             "stubs": {"gopkg.in/yaml.v2.Marshal": "zzStubMarshal", CP + ".NewFileWriter": "zzStubNewFileWriter", f"(*{CP}.Writer).WriteHeader": "zzStubWriteHeader",
                       f"(*{CP}.FileWriter).Close": "zzStubFWClose", f"(*{CP}.FileWriter).Name": "zzStubFWName", TR + "/cmd/thermal-recorder.newRecordingTempName": "zzStubTempName",
                       TR + "/cmd/thermal-recorder.renameTempRecording": "zzStubRenameTemp", TR + "/leptondController.SetAutoFFC": "zzStubSetAutoFFC2"}}
specs["C11"]["jobs"].append(START_JOB)
specs["C11"]["explanation"] += " A second job executes NewCPTVFileRecorder and two consecutive StartRecording calls of the same recorder (first one optionally failing at file creation or at the header) with the go-cptv file writer replaced by recording stubs: the header handed to WriteHeader carries the motion YAML plus exactly this trigger's threshold line, this trigger's background frame, the device/camera description, and nothing leaks from the previous recording; natively the real go-cptv writes the file and the header is read back with the standard reader."
specs["C11"]["outside_claim"] = [x for x in specs["C11"]["outside_claim"] if "WriteHeader" not in x]
for pid in ["C05", "C17", "C13"]:
    specs[pid]["jobs"] = specs[pid]["jobs"] + conn_jobs()[1:]
    specs[pid]["outside_claim"] = [x for x in specs[pid]["outside_claim"] if "wiring" not in x]

specs["C09"]["jobs"] = specs["C09"]["jobs"] + [_m, _a]

# C17 also after a bad frame: the valid frames that follow a rejected frame are still tiled (seeded C17-im1)
import copy as _copy
_bf = _copy.deepcopy([j for j in specs["C13"]["jobs"] if j["name"] == "bmc_badframes"][0])
_bf["grid"]["CR"] = [1]; _bf["grid_thorough"]["CR"] = [1]  # thorough K=9 validated for the C17 routing (72 s, clean)
specs["C17"]["jobs"].append(_bf)
specs["C17"]["explanation"] += " A further BMC job admits bad frames (no storage faults): the bad frame closes the continuous file and every valid frame after it again lands in exactly one properly started file."
specs["C17"]["assumptions"] = [a.replace("no storage faults, no bad frames", "no storage faults; bad frames only in the bmc_badframes job") for a in specs["C17"]["assumptions"]]

os.makedirs("/verif/checks", exist_ok=True)
for pid, sp in specs.items():
    json.dump(sp, open(f"/verif/checks/{pid}.json", "w"), indent=1)
print("wrote", sorted(specs))
