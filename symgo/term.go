package main

// Term DAG: hash-consed SMT terms with light simplification, and an
// SMT-LIB2 printer. Integers are bit-vectors of the Go width (wrap-around
// semantics); booleans are Bool; floats are FloatingPoint or, in UF mode,
// uninterpreted.

import (
	"fmt"
	"math"
	"math/big"
	"sort"
	"strings"
)

type Kind int

const (
	KBool Kind = iota
	KBV
	KF32
	KF64
)

type Sort struct {
	K Kind
	W int
}

var (
	SBool = Sort{KBool, 0}
	SF32  = Sort{KF32, 0}
	SF64  = Sort{KF64, 0}
)

func SBV(w int) Sort { return Sort{KBV, w} }

func (s Sort) String() string {
	switch s.K {
	case KBool:
		return "Bool"
	case KBV:
		return fmt.Sprintf("(_ BitVec %d)", s.W)
	case KF32:
		if floatUF {
			return "(_ BitVec 32)"
		}
		return "(_ FloatingPoint 8 24)"
	case KF64:
		if floatUF {
			return "(_ BitVec 64)"
		}
		return "(_ FloatingPoint 11 53)"
	}
	return "?"
}

// floatUF: encode float operations as uninterpreted functions over bit
// patterns (relational checks only; see DESIGN 2.2).
var floatUF = false

type Op int

const (
	OConst Op = iota
	OVar
	ONot
	OAnd
	OOr
	OIte
	OEq
	OAdd
	OSub
	OMul
	OUDiv
	OSDiv
	OURem
	OSRem
	OBAnd
	OBOr
	OBXor
	OShl
	OLShr
	OAShr
	ONeg
	OBNot
	OULt
	OULe
	OSLt
	OSLe
	OZExt
	OSExt
	OExtract
	OConcat
	// floats
	OFAdd
	OFSub
	OFMul
	OFDiv
	OFNeg
	OFLt
	OFLe
	OFEq
	OFIsNaN
	OSToF // signed bv -> float
	OUToF // unsigned bv -> float
	OFToS // float -> signed bv (RTZ)
	OFToU // float -> unsigned bv (RTZ)
	OFToF // float width conversion
	OFMax
	OFMin
	OFAbs
	OFFromBits
	OFToBits
	OUF // uninterpreted function application (name)
)

var opNames = map[Op]string{
	ONot: "not", OAnd: "and", OOr: "or", OIte: "ite", OEq: "=",
	OAdd: "bvadd", OSub: "bvsub", OMul: "bvmul", OUDiv: "bvudiv", OSDiv: "bvsdiv",
	OURem: "bvurem", OSRem: "bvsrem", OBAnd: "bvand", OBOr: "bvor", OBXor: "bvxor",
	OShl: "bvshl", OLShr: "bvlshr", OAShr: "bvashr", ONeg: "bvneg", OBNot: "bvnot",
	OULt: "bvult", OULe: "bvule", OSLt: "bvslt", OSLe: "bvsle", OConcat: "concat",
}

type Term struct {
	id   int
	op   Op
	sort Sort
	args []*Term
	val  *big.Int // BV const
	b    bool     // Bool const
	f    float64  // float const
	name string   // var / UF name
	hi   int      // extract hi / ext amount
	lo   int
}

type TermStore struct {
	tab  map[string]*Term
	next int
	vars map[string]*Term
}

var TS = &TermStore{tab: map[string]*Term{}, vars: map[string]*Term{}}

func (ts *TermStore) intern(t *Term) *Term {
	var sb strings.Builder
	fmt.Fprintf(&sb, "%d|%d.%d|", t.op, t.sort.K, t.sort.W)
	for _, a := range t.args {
		fmt.Fprintf(&sb, "%d,", a.id)
	}
	switch t.op {
	case OConst:
		switch t.sort.K {
		case KBool:
			fmt.Fprintf(&sb, "|%v", t.b)
		case KBV:
			sb.WriteString("|" + t.val.String())
		default:
			fmt.Fprintf(&sb, "|%x", math.Float64bits(t.f))
		}
	case OVar, OUF:
		sb.WriteString("|" + t.name)
	case OExtract, OZExt, OSExt:
		fmt.Fprintf(&sb, "|%d.%d", t.hi, t.lo)
	}
	k := sb.String()
	if e, ok := ts.tab[k]; ok {
		return e
	}
	ts.next++
	t.id = ts.next
	ts.tab[k] = t
	return t
}

var (
	TTrue  = TS.intern(&Term{op: OConst, sort: SBool, b: true})
	TFalse = TS.intern(&Term{op: OConst, sort: SBool, b: false})
)

func mask(w int) *big.Int {
	m := new(big.Int).Lsh(big.NewInt(1), uint(w))
	return m.Sub(m, big.NewInt(1))
}

func normBV(v *big.Int, w int) *big.Int {
	r := new(big.Int).And(v, mask(w))
	return r
}

func BVConstBig(v *big.Int, w int) *Term {
	return TS.intern(&Term{op: OConst, sort: SBV(w), val: normBV(v, w)})
}
func BVConst(v int64, w int) *Term   { return BVConstBig(big.NewInt(v), w) }
func BVConstU(v uint64, w int) *Term { return BVConstBig(new(big.Int).SetUint64(v), w) }
func BoolConst(b bool) *Term {
	if b {
		return TTrue
	}
	return TFalse
}
func FConst(f float64, s Sort) *Term {
	if s.K == KF32 {
		f = float64(float32(f))
	}
	return TS.intern(&Term{op: OConst, sort: s, f: f})
}

func Var(name string, s Sort) *Term {
	if v, ok := TS.vars[name]; ok {
		if v.sort != s {
			panic(fmt.Sprintf("var %s redeclared with different sort %v vs %v", name, v.sort, s))
		}
		return v
	}
	v := TS.intern(&Term{op: OVar, sort: s, name: name})
	TS.vars[name] = v
	return v
}

func (t *Term) IsConst() bool { return t.op == OConst }
func (t *Term) IsTrue() bool  { return t == TTrue }
func (t *Term) IsFalse() bool { return t == TFalse }

// signed value of a BV const
func (t *Term) Signed() *big.Int {
	v := new(big.Int).Set(t.val)
	if v.Bit(t.sort.W-1) == 1 {
		v.Sub(v, new(big.Int).Lsh(big.NewInt(1), uint(t.sort.W)))
	}
	return v
}
func (t *Term) Int64() int64   { return t.Signed().Int64() }
func (t *Term) Uint64() uint64 { return t.val.Uint64() }

func mk(op Op, s Sort, args ...*Term) *Term {
	return TS.intern(&Term{op: op, sort: s, args: args})
}

func Not(a *Term) *Term {
	if a.IsConst() {
		return BoolConst(!a.b)
	}
	if a.op == ONot {
		return a.args[0]
	}
	return mk(ONot, SBool, a)
}

func flattenBool(op Op, args []*Term) []*Term {
	var out []*Term
	for _, a := range args {
		if a.op == op {
			out = append(out, a.args...)
		} else {
			out = append(out, a)
		}
	}
	return out
}

func And(args ...*Term) *Term {
	fl := flattenBool(OAnd, args)
	seen := map[int]bool{}
	var out []*Term
	for _, a := range fl {
		if a.IsFalse() {
			return TFalse
		}
		if a.IsTrue() || seen[a.id] {
			continue
		}
		seen[a.id] = true
		out = append(out, a)
	}
	for _, a := range out {
		if a.op == ONot && seen[a.args[0].id] {
			return TFalse
		}
	}
	if len(out) == 0 {
		return TTrue
	}
	if len(out) == 1 {
		return out[0]
	}
	return mk(OAnd, SBool, out...)
}

func Or(args ...*Term) *Term {
	fl := flattenBool(OOr, args)
	seen := map[int]bool{}
	var out []*Term
	for _, a := range fl {
		if a.IsTrue() {
			return TTrue
		}
		if a.IsFalse() || seen[a.id] {
			continue
		}
		seen[a.id] = true
		out = append(out, a)
	}
	for _, a := range out {
		if a.op == ONot && seen[a.args[0].id] {
			return TTrue
		}
	}
	if len(out) == 0 {
		return TFalse
	}
	if len(out) == 1 {
		return out[0]
	}
	if len(out) == 2 {
		if r := orCommon(out[0], out[1]); r != nil {
			return r
		}
	}
	return mk(OOr, SBool, out...)
}

func conjuncts(t *Term) []*Term {
	if t.op == OAnd {
		return t.args
	}
	return []*Term{t}
}

// or(and(P..., c), and(P..., not c)) = and(P...); or(and(P...,X), and(P...)) = and(P...)
func orCommon(a, b *Term) *Term {
	ca, cb := conjuncts(a), conjuncts(b)
	ina := map[int]bool{}
	for _, x := range ca {
		ina[x.id] = true
	}
	inb := map[int]bool{}
	for _, x := range cb {
		inb[x.id] = true
	}
	var onlyA, onlyB, common []*Term
	for _, x := range ca {
		if inb[x.id] {
			common = append(common, x)
		} else {
			onlyA = append(onlyA, x)
		}
	}
	for _, x := range cb {
		if !ina[x.id] {
			onlyB = append(onlyB, x)
		}
	}
	if len(onlyA) == 0 { // a subsumes b
		return a
	}
	if len(onlyB) == 0 {
		return b
	}
	if len(onlyA) == 1 && len(onlyB) == 1 && Not(onlyA[0]) == onlyB[0] {
		return And(common...)
	}
	if len(common) > 0 {
		// factor: common && (restA || restB)
		ra, rb := And(onlyA...), And(onlyB...)
		inner := mkOrRaw(ra, rb)
		return And(append(append([]*Term{}, common...), inner)...)
	}
	return nil
}

func mkOrRaw(a, b *Term) *Term {
	if a.IsTrue() || b.IsTrue() {
		return TTrue
	}
	if a.IsFalse() {
		return b
	}
	if b.IsFalse() {
		return a
	}
	if a == b {
		return a
	}
	if Not(a) == b {
		return TTrue
	}
	args := flattenBool(OOr, []*Term{a, b})
	return mk(OOr, SBool, args...)
}

func Implies(a, b *Term) *Term { return Or(Not(a), b) }

func Ite(c, a, b *Term) *Term {
	if a.sort != b.sort {
		panic(fmt.Sprintf("ite sort mismatch %v vs %v", a.sort, b.sort))
	}
	if c.IsTrue() {
		return a
	}
	if c.IsFalse() {
		return b
	}
	if a == b {
		return a
	}
	if c.op == ONot {
		return Ite(c.args[0], b, a)
	}
	if a.sort.K == KBool {
		if a.IsTrue() && b.IsFalse() {
			return c
		}
		if a.IsFalse() && b.IsTrue() {
			return Not(c)
		}
		if a.IsTrue() {
			return Or(c, b)
		}
		if a.IsFalse() {
			return And(Not(c), b)
		}
		if b.IsTrue() {
			return Or(Not(c), a)
		}
		if b.IsFalse() {
			return And(c, a)
		}
	}
	// ite(c, ite(c, x, y), z) = ite(c, x, z)
	if a.op == OIte && a.args[0] == c {
		return Ite(c, a.args[1], b)
	}
	if b.op == OIte && b.args[0] == c {
		return Ite(c, a, b.args[2])
	}
	return mk(OIte, a.sort, c, a, b)
}

// iteLeaves: if t is a (small) ite-tree with all-constant leaves return them
func constIteTree(t *Term, budget *int) bool {
	if t.IsConst() {
		return true
	}
	if t.op != OIte {
		return false
	}
	*budget--
	if *budget < 0 {
		return false
	}
	return constIteTree(t.args[1], budget) && constIteTree(t.args[2], budget)
}

func mapIte(t *Term, f func(*Term) *Term) *Term {
	if t.op == OIte {
		return Ite(t.args[0], mapIte(t.args[1], f), mapIte(t.args[2], f))
	}
	return f(t)
}

// liftIte applies binary op builder through ite-trees of constants when the
// other operand is a constant, keeping guarded-concrete values concrete.
func liftIte(a, b *Term, f func(x, y *Term) *Term) (*Term, bool) {
	if a.op == OIte && (b.IsConst()) {
		bud := 24
		if constIteTree(a, &bud) {
			return mapIte(a, func(x *Term) *Term { return f(x, b) }), true
		}
	}
	if b.op == OIte && (a.IsConst()) {
		bud := 24
		if constIteTree(b, &bud) {
			return mapIte(b, func(y *Term) *Term { return f(a, y) }), true
		}
	}
	return nil, false
}

func Eq(a, b *Term) *Term {
	if a.sort != b.sort {
		panic(fmt.Sprintf("eq sort mismatch %v vs %v", a.sort, b.sort))
	}
	if a == b {
		if a.sort.K == KF32 || a.sort.K == KF64 {
			// bitwise (SMT =) equality is reflexive even for NaN
		}
		return TTrue
	}
	if a.IsConst() && b.IsConst() {
		switch a.sort.K {
		case KBool:
			return BoolConst(a.b == b.b)
		case KBV:
			return BoolConst(a.val.Cmp(b.val) == 0)
		default:
			return BoolConst(math.Float64bits(a.f) == math.Float64bits(b.f))
		}
	}
	if a.sort.K == KBool {
		if a.IsTrue() {
			return b
		}
		if b.IsTrue() {
			return a
		}
		if a.IsFalse() {
			return Not(b)
		}
		if b.IsFalse() {
			return Not(a)
		}
	}
	if r, ok := liftIte(a, b, Eq); ok {
		return r
	}
	if a.id > b.id {
		a, b = b, a
	}
	return mk(OEq, SBool, a, b)
}

func bvBin(op Op, a, b *Term) *Term {
	if a.sort != b.sort || a.sort.K != KBV {
		panic(fmt.Sprintf("bv op %v sort mismatch %v vs %v", op, a.sort, b.sort))
	}
	w := a.sort.W
	if a.IsConst() && b.IsConst() {
		x, y := a.val, b.val
		sx, sy := a.Signed(), b.Signed()
		r := new(big.Int)
		switch op {
		case OAdd:
			r.Add(x, y)
		case OSub:
			r.Sub(x, y)
		case OMul:
			r.Mul(x, y)
		case OUDiv:
			if y.Sign() == 0 {
				r.Set(mask(w))
			} else {
				r.Quo(x, y)
			}
		case OURem:
			if y.Sign() == 0 {
				r.Set(x)
			} else {
				r.Rem(x, y)
			}
		case OSDiv:
			if sy.Sign() == 0 {
				if sx.Sign() >= 0 {
					r.Set(mask(w))
				} else {
					r.SetInt64(1)
				}
			} else {
				r.Quo(sx, sy)
			}
		case OSRem:
			if sy.Sign() == 0 {
				r.Set(sx)
			} else {
				r.Rem(sx, sy)
			}
		case OBAnd:
			r.And(x, y)
		case OBOr:
			r.Or(x, y)
		case OBXor:
			r.Xor(x, y)
		case OShl:
			if y.Cmp(big.NewInt(int64(w))) >= 0 {
				r.SetInt64(0)
			} else {
				r.Lsh(x, uint(y.Uint64()))
			}
		case OLShr:
			if y.Cmp(big.NewInt(int64(w))) >= 0 {
				r.SetInt64(0)
			} else {
				r.Rsh(x, uint(y.Uint64()))
			}
		case OAShr:
			if y.Cmp(big.NewInt(int64(w))) >= 0 {
				if sx.Sign() < 0 {
					r.SetInt64(-1)
				} else {
					r.SetInt64(0)
				}
			} else {
				r.Rsh(sx, uint(y.Uint64()))
			}
		}
		return BVConstBig(r, w)
	}
	isZero := func(t *Term) bool { return t.IsConst() && t.val.Sign() == 0 }
	isOne := func(t *Term) bool { return t.IsConst() && t.val.Cmp(big.NewInt(1)) == 0 }
	switch op {
	case OAdd:
		if isZero(a) {
			return b
		}
		if isZero(b) {
			return a
		}
		// (x + c1) + c2
		if b.IsConst() && a.op == OAdd && a.args[1].IsConst() {
			return bvBin(OAdd, a.args[0], bvBin(OAdd, a.args[1], b))
		}
		if a.IsConst() && !b.IsConst() {
			a, b = b, a
		}
	case OSub:
		if isZero(b) {
			return a
		}
		if a == b {
			return BVConst(0, w)
		}
		if b.IsConst() {
			return bvBin(OAdd, a, BVConstBig(new(big.Int).Neg(b.val), w))
		}
	case OMul:
		if isZero(a) || isZero(b) {
			return BVConst(0, w)
		}
		if isOne(a) {
			return b
		}
		if isOne(b) {
			return a
		}
	case OBAnd:
		if isZero(a) || isZero(b) {
			return BVConst(0, w)
		}
		if a == b {
			return a
		}
	case OBOr, OBXor:
		if isZero(a) {
			return b
		}
		if isZero(b) {
			return a
		}
	case OShl, OLShr, OAShr:
		if isZero(b) {
			return a
		}
	case OUDiv, OSDiv:
		if isOne(b) {
			return a
		}
	}
	if r, ok := liftIte(a, b, func(x, y *Term) *Term { return bvBin(op, x, y) }); ok {
		return r
	}
	return mk(op, a.sort, a, b)
}

func Add(a, b *Term) *Term  { return bvBin(OAdd, a, b) }
func Sub(a, b *Term) *Term  { return bvBin(OSub, a, b) }
func Mul(a, b *Term) *Term  { return bvBin(OMul, a, b) }
func UDiv(a, b *Term) *Term { return bvBin(OUDiv, a, b) }
func SDiv(a, b *Term) *Term { return bvBin(OSDiv, a, b) }
func URem(a, b *Term) *Term { return bvBin(OURem, a, b) }
func SRem(a, b *Term) *Term { return bvBin(OSRem, a, b) }

func Neg(a *Term) *Term {
	if a.IsConst() {
		return BVConstBig(new(big.Int).Neg(a.val), a.sort.W)
	}
	return mk(ONeg, a.sort, a)
}
func BNot(a *Term) *Term {
	if a.IsConst() {
		return BVConstBig(new(big.Int).Xor(a.val, mask(a.sort.W)), a.sort.W)
	}
	return mk(OBNot, a.sort, a)
}

func bvCmp(op Op, a, b *Term) *Term {
	if a.sort != b.sort || a.sort.K != KBV {
		panic(fmt.Sprintf("bv cmp sort mismatch %v vs %v", a.sort, b.sort))
	}
	if a.IsConst() && b.IsConst() {
		var c int
		if op == OULt || op == OULe {
			c = a.val.Cmp(b.val)
		} else {
			c = a.Signed().Cmp(b.Signed())
		}
		if op == OULt || op == OSLt {
			return BoolConst(c < 0)
		}
		return BoolConst(c <= 0)
	}
	if a == b {
		return BoolConst(op == OULe || op == OSLe)
	}
	if r, ok := liftIte(a, b, func(x, y *Term) *Term { return bvCmp(op, x, y) }); ok {
		return r
	}
	return mk(op, SBool, a, b)
}

func ULt(a, b *Term) *Term { return bvCmp(OULt, a, b) }
func ULe(a, b *Term) *Term { return bvCmp(OULe, a, b) }
func SLt(a, b *Term) *Term { return bvCmp(OSLt, a, b) }
func SLe(a, b *Term) *Term { return bvCmp(OSLe, a, b) }

func ZExt(a *Term, w int) *Term {
	if a.sort.W == w {
		return a
	}
	if a.sort.W > w {
		return Extract(a, w-1, 0)
	}
	if a.IsConst() {
		return BVConstBig(a.val, w)
	}
	if a.op == OIte {
		bud := 24
		if constIteTree(a, &bud) {
			return mapIte(a, func(x *Term) *Term { return ZExt(x, w) })
		}
	}
	return TS.intern(&Term{op: OZExt, sort: SBV(w), args: []*Term{a}, hi: w - a.sort.W})
}

func SExt(a *Term, w int) *Term {
	if a.sort.W == w {
		return a
	}
	if a.sort.W > w {
		return Extract(a, w-1, 0)
	}
	if a.IsConst() {
		return BVConstBig(a.Signed(), w)
	}
	if a.op == OIte {
		bud := 24
		if constIteTree(a, &bud) {
			return mapIte(a, func(x *Term) *Term { return SExt(x, w) })
		}
	}
	return TS.intern(&Term{op: OSExt, sort: SBV(w), args: []*Term{a}, hi: w - a.sort.W})
}

func Extract(a *Term, hi, lo int) *Term {
	if lo == 0 && hi == a.sort.W-1 {
		return a
	}
	if a.IsConst() {
		v := new(big.Int).Rsh(a.val, uint(lo))
		return BVConstBig(v, hi-lo+1)
	}
	if (a.op == OZExt || a.op == OSExt) && lo == 0 && hi < a.args[0].sort.W {
		return Extract(a.args[0], hi, 0)
	}
	if a.op == OIte {
		bud := 24
		if constIteTree(a, &bud) {
			return mapIte(a, func(x *Term) *Term { return Extract(x, hi, lo) })
		}
	}
	return TS.intern(&Term{op: OExtract, sort: SBV(hi - lo + 1), args: []*Term{a}, hi: hi, lo: lo})
}

func Concat(a, b *Term) *Term {
	if a.IsConst() && b.IsConst() {
		v := new(big.Int).Lsh(a.val, uint(b.sort.W))
		v.Or(v, b.val)
		return BVConstBig(v, a.sort.W+b.sort.W)
	}
	return mk(OConcat, SBV(a.sort.W+b.sort.W), a, b)
}

// ---------- floats

func isF(s Sort) bool { return s.K == KF32 || s.K == KF64 }

func roundTo(s Sort, f float64) float64 {
	if s.K == KF32 {
		return float64(float32(f))
	}
	return f
}

func fBin(op Op, a, b *Term) *Term {
	if a.sort != b.sort || !isF(a.sort) {
		panic("float op sort mismatch")
	}
	if a.IsConst() && b.IsConst() {
		var r float64
		if a.sort.K == KF32 {
			x, y := float32(a.f), float32(b.f)
			switch op {
			case OFAdd:
				r = float64(x + y)
			case OFSub:
				r = float64(x - y)
			case OFMul:
				r = float64(x * y)
			case OFDiv:
				r = float64(x / y)
			case OFMax:
				r = math.Max(float64(x), float64(y))
			case OFMin:
				r = math.Min(float64(x), float64(y))
			}
		} else {
			x, y := a.f, b.f
			switch op {
			case OFAdd:
				r = x + y
			case OFSub:
				r = x - y
			case OFMul:
				r = x * y
			case OFDiv:
				r = x / y
			case OFMax:
				r = math.Max(x, y)
			case OFMin:
				r = math.Min(x, y)
			}
		}
		return FConst(r, a.sort)
	}
	return mk(op, a.sort, a, b)
}

func fCmp(op Op, a, b *Term) *Term {
	if a.sort != b.sort || !isF(a.sort) {
		panic("float cmp sort mismatch")
	}
	if a.IsConst() && b.IsConst() {
		switch op {
		case OFLt:
			return BoolConst(a.f < b.f)
		case OFLe:
			return BoolConst(a.f <= b.f)
		case OFEq:
			return BoolConst(a.f == b.f)
		}
	}
	return mk(op, SBool, a, b)
}

func FNeg(a *Term) *Term {
	if a.IsConst() {
		return FConst(-a.f, a.sort)
	}
	return mk(OFNeg, a.sort, a)
}

func FAbs(a *Term) *Term {
	if a.IsConst() {
		return FConst(math.Abs(a.f), a.sort)
	}
	return mk(OFAbs, a.sort, a)
}

func IntToF(a *Term, signed bool, s Sort) *Term {
	if a.IsConst() {
		if signed {
			f, _ := new(big.Float).SetInt(a.Signed()).Float64()
			if s.K == KF32 {
				f32, _ := new(big.Float).SetInt(a.Signed()).Float32()
				f = float64(f32)
			}
			return FConst(f, s)
		}
		f, _ := new(big.Float).SetInt(a.val).Float64()
		if s.K == KF32 {
			f32, _ := new(big.Float).SetInt(a.val).Float32()
			f = float64(f32)
		}
		return FConst(f, s)
	}
	if signed {
		return mk(OSToF, s, a)
	}
	return mk(OUToF, s, a)
}

func FToInt(a *Term, signed bool, w int) *Term {
	if a.IsConst() && !math.IsNaN(a.f) && !math.IsInf(a.f, 0) {
		bf := new(big.Float).SetFloat64(math.Trunc(a.f))
		bi, _ := bf.Int(nil)
		// in-range check: Go's behaviour for out-of-range is implementation
		// defined; only fold when in range.
		lo := new(big.Int)
		hiB := new(big.Int)
		if signed {
			lo.Neg(new(big.Int).Lsh(big.NewInt(1), uint(w-1)))
			hiB.Sub(new(big.Int).Lsh(big.NewInt(1), uint(w-1)), big.NewInt(1))
		} else {
			hiB.Set(mask(w))
		}
		if bi.Cmp(lo) >= 0 && bi.Cmp(hiB) <= 0 {
			return BVConstBig(bi, w)
		}
	}
	if signed {
		return TS.intern(&Term{op: OFToS, sort: SBV(w), args: []*Term{a}})
	}
	return TS.intern(&Term{op: OFToU, sort: SBV(w), args: []*Term{a}})
}

func FToF(a *Term, s Sort) *Term {
	if a.sort == s {
		return a
	}
	if a.IsConst() {
		return FConst(a.f, s)
	}
	return mk(OFToF, s, a)
}

func FFromBits(a *Term, s Sort) *Term {
	if a.IsConst() {
		if s.K == KF32 {
			return FConst(float64(math.Float32frombits(uint32(a.val.Uint64()))), s)
		}
		return FConst(math.Float64frombits(a.val.Uint64()), s)
	}
	return mk(OFFromBits, s, a)
}

func UF(name string, s Sort, args ...*Term) *Term {
	return TS.intern(&Term{op: OUF, sort: s, args: args, name: name})
}

// ---------- printing

type Printer struct {
	sb      strings.Builder
	defined map[int]bool
	vars    map[string]Sort
	ufs     map[string]string
	decls   strings.Builder
}

func NewPrinter() *Printer {
	return &Printer{defined: map[int]bool{}, vars: map[string]Sort{}, ufs: map[string]string{}}
}

func smtName(n string) string {
	return "|" + strings.NewReplacer("|", "_", "\\", "_").Replace(n) + "|"
}

func bvLit(v *big.Int, w int) string {
	if w%4 == 0 {
		return fmt.Sprintf("#x%0*s", w/4, v.Text(16))
	}
	return fmt.Sprintf("#b%0*s", w, v.Text(2))
}

func fpLit(f float64, s Sort) string {
	if floatUF {
		if s.K == KF32 {
			return bvLit(new(big.Int).SetUint64(uint64(math.Float32bits(float32(f)))), 32)
		}
		return bvLit(new(big.Int).SetUint64(math.Float64bits(f)), 64)
	}
	if s.K == KF32 {
		b := math.Float32bits(float32(f))
		return fmt.Sprintf("(fp #b%01b #b%08b #b%023b)", b>>31, (b>>23)&0xff, b&0x7fffff)
	}
	b := math.Float64bits(f)
	return fmt.Sprintf("(fp #b%01b #b%011b #b%052b)", b>>63, (b>>52)&0x7ff, b&0xfffffffffffff)
}

func (p *Printer) ref(t *Term) string {
	switch t.op {
	case OConst:
		switch t.sort.K {
		case KBool:
			if t.b {
				return "true"
			}
			return "false"
		case KBV:
			return bvLit(t.val, t.sort.W)
		default:
			return fpLit(t.f, t.sort)
		}
	case OVar:
		return smtName(t.name)
	}
	return fmt.Sprintf("n%d", t.id)
}

func fpSortIdx(s Sort) string {
	if s.K == KF32 {
		return "8 24"
	}
	return "11 53"
}

func (p *Printer) ufDecl(name string, t *Term) {
	if _, ok := p.ufs[name]; ok {
		return
	}
	var as []string
	for _, a := range t.args {
		as = append(as, a.sort.String())
	}
	p.ufs[name] = fmt.Sprintf("(declare-fun %s (%s) %s)\n", smtName(name), strings.Join(as, " "), t.sort.String())
	p.decls.WriteString(p.ufs[name])
}

func (p *Printer) body(t *Term) string {
	var as []string
	for _, a := range t.args {
		as = append(as, p.ref(a))
	}
	j := strings.Join(as, " ")
	if floatUF {
		ufn := ""
		switch t.op {
		case OFAdd:
			ufn = "uf_fadd"
		case OFSub:
			ufn = "uf_fsub"
		case OFMul:
			ufn = "uf_fmul"
		case OFDiv:
			ufn = "uf_fdiv"
		case OFNeg:
			ufn = "uf_fneg"
		case OFLt:
			ufn = "uf_flt"
		case OFLe:
			ufn = "uf_fle"
		case OFEq:
			ufn = "uf_feq"
		case OFIsNaN:
			ufn = "uf_fisnan"
		case OSToF:
			ufn = "uf_stof"
		case OUToF:
			ufn = "uf_utof"
		case OFToS:
			ufn = "uf_ftos"
		case OFToU:
			ufn = "uf_ftou"
		case OFToF:
			ufn = "uf_ftof"
		case OFMax:
			ufn = "uf_fmax"
		case OFMin:
			ufn = "uf_fmin"
		case OFAbs:
			ufn = "uf_fabs"
		}
		if ufn != "" {
			ufn = fmt.Sprintf("%s_%d_%d_%d", ufn, t.args[0].sort.K, t.args[0].sort.W, t.sort.K*100+Kind(t.sort.W))
			p.ufDecl(ufn, t)
			return fmt.Sprintf("(%s %s)", smtName(ufn), j)
		}
	}
	switch t.op {
	case OZExt:
		return fmt.Sprintf("((_ zero_extend %d) %s)", t.hi, j)
	case OSExt:
		return fmt.Sprintf("((_ sign_extend %d) %s)", t.hi, j)
	case OExtract:
		return fmt.Sprintf("((_ extract %d %d) %s)", t.hi, t.lo, j)
	case OFAdd:
		return "(fp.add RNE " + j + ")"
	case OFSub:
		return "(fp.sub RNE " + j + ")"
	case OFMul:
		return "(fp.mul RNE " + j + ")"
	case OFDiv:
		return "(fp.div RNE " + j + ")"
	case OFNeg:
		return "(fp.neg " + j + ")"
	case OFAbs:
		return "(fp.abs " + j + ")"
	case OFLt:
		return "(fp.lt " + j + ")"
	case OFLe:
		return "(fp.leq " + j + ")"
	case OFEq:
		return "(fp.eq " + j + ")"
	case OFIsNaN:
		return "(fp.isNaN " + j + ")"
	case OFMax:
		// Go math.Max: NaN if either NaN; SMT fp.max returns the other. Guard.
		return fmt.Sprintf("(ite (or (fp.isNaN %s) (fp.isNaN %s)) (_ NaN %s) (fp.max %s))", as[0], as[1], fpSortIdx(t.sort), j)
	case OFMin:
		return fmt.Sprintf("(ite (or (fp.isNaN %s) (fp.isNaN %s)) (_ NaN %s) (fp.min %s))", as[0], as[1], fpSortIdx(t.sort), j)
	case OSToF:
		return fmt.Sprintf("((_ to_fp %s) RNE %s)", fpSortIdx(t.sort), j)
	case OUToF:
		return fmt.Sprintf("((_ to_fp_unsigned %s) RNE %s)", fpSortIdx(t.sort), j)
	case OFToF:
		return fmt.Sprintf("((_ to_fp %s) RNE %s)", fpSortIdx(t.sort), j)
	case OFToS:
		return fmt.Sprintf("((_ fp.to_sbv %d) RTZ %s)", t.sort.W, j)
	case OFToU:
		return fmt.Sprintf("((_ fp.to_ubv %d) RTZ %s)", t.sort.W, j)
	case OFFromBits:
		if floatUF {
			return j
		}
		return fmt.Sprintf("((_ to_fp %s) %s)", fpSortIdx(t.sort), j)
	case OUF:
		p.ufDecl(t.name, t)
		if len(as) == 0 {
			return smtName(t.name)
		}
		return fmt.Sprintf("(%s %s)", smtName(t.name), j)
	}
	return "(" + opNames[t.op] + " " + j + ")"
}

// define emits definitions for all nodes under t (post-order, iterative)
func (p *Printer) define(root *Term) {
	type fr struct {
		t *Term
		i int
	}
	if root.op == OConst || p.defined[root.id] {
		return
	}
	stack := []fr{{root, 0}}
	for len(stack) > 0 {
		top := &stack[len(stack)-1]
		t := top.t
		if p.defined[t.id] {
			stack = stack[:len(stack)-1]
			continue
		}
		if top.i < len(t.args) {
			a := t.args[top.i]
			top.i++
			if a.op != OConst && !p.defined[a.id] {
				stack = append(stack, fr{a, 0})
			}
			continue
		}
		p.defined[t.id] = true
		if t.op == OVar {
			if _, ok := p.vars[t.name]; !ok {
				p.vars[t.name] = t.sort
				fmt.Fprintf(&p.decls, "(declare-fun %s () %s)\n", smtName(t.name), t.sort)
			}
		} else {
			b := p.body(t)
			fmt.Fprintf(&p.sb, "(define-fun n%d () %s %s)\n", t.id, t.sort, b)
		}
		stack = stack[:len(stack)-1]
	}
}

// Script returns a standalone SMT-LIB2 script asserting all of asserts.
func Script(asserts []*Term, getModel bool) (string, []string) {
	p := NewPrinter()
	for _, a := range asserts {
		p.define(a)
	}
	var out strings.Builder
	out.WriteString(p.decls.String())
	out.WriteString(p.sb.String())
	for _, a := range asserts {
		fmt.Fprintf(&out, "(assert %s)\n", p.ref(a))
	}
	var names []string
	for n := range p.vars {
		names = append(names, n)
	}
	sort.Strings(names)
	return out.String(), names
}

func (t *Term) String() string {
	if t.op == OConst {
		switch t.sort.K {
		case KBool:
			return fmt.Sprint(t.b)
		case KBV:
			return t.Signed().String()
		default:
			return fmt.Sprint(t.f)
		}
	}
	if t.op == OVar {
		return t.name
	}
	return fmt.Sprintf("n%d", t.id)
}

// termSize counts DAG nodes under t.
func termSize(roots ...*Term) int {
	seen := map[int]bool{}
	var st []*Term
	st = append(st, roots...)
	for len(st) > 0 {
		t := st[len(st)-1]
		st = st[:len(st)-1]
		if seen[t.id] {
			continue
		}
		seen[t.id] = true
		st = append(st, t.args...)
	}
	return len(seen)
}
