package main

import (
	"crypto/sha256"
	"encoding/json"
	"flag"
	"fmt"
	"os"
	"os/exec"
	"path/filepath"
	"runtime/debug"
	"sort"
	"strconv"
	"strings"
	"sync"
	"time"

	"golang.org/x/tools/go/packages"
	"golang.org/x/tools/go/ssa"
	"golang.org/x/tools/go/ssa/ssautil"
)

// repoDir is /repo; SYMGO_REPO points the tool at a scratch copy instead (used
// only by seeded/run_all.sh so that seeded changes never touch /repo), in
// which case evidence and replays go to SYMGO_OUT.
var (
	repoDir  = envOr("SYMGO_REPO", "/repo")
	verifDir = "/verif"
	outDir   = envOr("SYMGO_OUT", "/verif")
)

func envOr(k, d string) string {
	if v := os.Getenv(k); v != "" {
		return v
	}
	return d
}

type JobSpec struct {
	Name         string             `json:"name"`
	Pkg          string             `json:"pkg"`     // directory under /repo, e.g. "motion"
	Harness      string             `json:"harness"` // directory under /verif/harness
	Entry        string             `json:"entry"`
	Grid         map[string][]int64 `json:"grid"`
	GridThorough map[string][]int64 `json:"grid_thorough"`
	Skip         []map[string]int64 `json:"skip"` // parameter combinations to skip
	Where        string             `json:"where"`
	Stubs        map[string]string  `json:"stubs"`
	Noops        []string           `json:"noops"`
	AllowPkgs    []string           `json:"allow_pkgs"`
	InitPkgs     []string           `json:"init_pkgs"`     // packages whose init() is executed first
	FixedNow     int64              `json:"fixed_now"`     // time.Now() returns this instant (ns since 1970)
	ExecBudget   int                `json:"exec_budget_s"` // wall-clock cap on the symbolic execution of one instance
	FloatUF      bool               `json:"float_uf"`
	Solvers      []string           `json:"solvers"`
	Timeout      int                `json:"timeout"`
	Unwind       int                `json:"unwind"`
	Tier         string             `json:"tier"` // "" both, "thorough" only thorough
	Rewrite      []string           `json:"native_rewrite"`
}

type CheckSpec struct {
	Property    string    `json:"property"`
	Explanation string    `json:"explanation"`
	Jobs        []JobSpec `json:"jobs"`
	Outside     []string  `json:"outside_claim"`
	Assumptions []string  `json:"assumptions"`
	StubsDoc    []string  `json:"stubs_doc"`
}

type QueryResult struct {
	Job      string            `json:"job"`
	Params   map[string]int64  `json:"params"`
	Kind     string            `json:"kind"`
	Label    string            `json:"label"`
	Pos      string            `json:"pos,omitempty"`
	Status   string            `json:"status"`
	Solver   string            `json:"solver"`
	Secs     float64           `json:"secs"`
	Size     int               `json:"term_nodes"`
	Model    map[string]int64  `json:"model,omitempty"`
	RawModel map[string]string `json:"-"`
	Script   string            `json:"-"`
}

type LoadedPkg struct {
	prog *ssa.Program
	pkg  *ssa.Package
	wall float64
}

func goEnv() []string {
	env := os.Environ()
	env = append(env, "GOFLAGS=-mod=mod", "GOPROXY=off", "GOSUMDB=off", "GOTOOLCHAIN=local", "GOWORK=off")
	return env
}

// droppedHarness: harness files (by "<pkgDir>|<harness>" then file name) left out
// because they do not compile against the tree under check (e.g. a step lemma
// that builds its pre-state from struct fields the tree no longer has); the
// jobs whose entry lives in such a file are inconclusive, the others still run.
var droppedHarness = map[string]map[string]string{}

func harnessOverlay(pkgDir, harness string, withTest bool) (map[string][]byte, string, error) {
	hdir := filepath.Join(verifDir, "harness", harness)
	ents, err := os.ReadDir(hdir)
	if err != nil {
		return nil, "", err
	}
	ov := map[string][]byte{}
	pkgName := ""
	for _, en := range ents {
		if !strings.HasSuffix(en.Name(), ".go") {
			continue
		}
		if _, dropped := droppedHarness[pkgDir+"|"+harness][en.Name()]; dropped {
			continue
		}
		b, err := os.ReadFile(filepath.Join(hdir, en.Name()))
		if err != nil {
			return nil, "", err
		}
		if pkgName == "" && !strings.HasPrefix(en.Name(), "pkg_") {
			for _, l := range strings.Split(string(b), "\n") {
				if strings.HasPrefix(l, "package ") {
					pkgName = strings.TrimSpace(strings.TrimPrefix(l, "package "))
					break
				}
			}
		}
		if strings.HasPrefix(en.Name(), "pkg_") {
			// pkg_<dir with __ for />__<file>.go goes into another repo package
			parts := strings.Split(strings.TrimPrefix(en.Name(), "pkg_"), "__")
			ov[filepath.Join(append([]string{repoDir}, parts...)...)] = b
			continue
		}
		ov[filepath.Join(repoDir, pkgDir, en.Name())] = b
	}
	if pkgName == "" {
		return nil, "", fmt.Errorf("no harness files in %s", hdir)
	}
	rt, err := os.ReadFile(filepath.Join(verifDir, "harness", "zz_rt.go.tmpl"))
	if err != nil {
		return nil, "", err
	}
	ov[filepath.Join(repoDir, pkgDir, "zz_rt.go")] = []byte(strings.Replace(string(rt), "PKGNAME", pkgName, 1))
	if withTest {
		tt, err := os.ReadFile(filepath.Join(verifDir, "harness", "zz_replay_test.go.tmpl"))
		if err != nil {
			return nil, "", err
		}
		ov[filepath.Join(repoDir, pkgDir, "zz_replay_test.go")] = []byte(strings.Replace(string(tt), "PKGNAME", pkgName, 1))
	}
	return ov, pkgName, nil
}

func loadPkg(pkgDir, harness string) (*LoadedPkg, error) {
	start := time.Now()
	var pkgs []*packages.Package
	for attempt := 0; ; attempt++ {
		ov, _, err := harnessOverlay(pkgDir, harness, false)
		if err != nil {
			return nil, err
		}
		cfg := &packages.Config{Mode: packages.LoadAllSyntax, Dir: repoDir, Env: goEnv(), Overlay: ov}
		pkgs, err = packages.Load(cfg, "./"+pkgDir)
		if err != nil {
			return nil, err
		}
		// errors confined to harness files other than the runtime: leave those files out and retry
		bad := map[string]string{}
		onlyHarness, nerr := true, 0
		packages.Visit(pkgs, nil, func(p *packages.Package) {
			for _, e := range p.Errors {
				nerr++
				file := e.Pos
				if i := strings.Index(file, ":"); i >= 0 {
					file = file[:i]
				}
				base := filepath.Base(file)
				if _, isOv := ov[file]; isOv && strings.HasPrefix(base, "zz_") && base != "zz_rt.go" && filepath.Dir(file) == filepath.Join(repoDir, pkgDir) {
					if _, ok := bad[base]; !ok {
						bad[base] = e.Msg
					}
				} else {
					onlyHarness = false
				}
			}
		})
		if nerr == 0 {
			break
		}
		if !onlyHarness || len(bad) == 0 || attempt >= 3 {
			packages.PrintErrors(pkgs)
			return nil, fmt.Errorf("package %s has errors", pkgDir)
		}
		key := pkgDir + "|" + harness
		if droppedHarness[key] == nil {
			droppedHarness[key] = map[string]string{}
		}
		for f, msg := range bad {
			droppedHarness[key][f] = msg
			fmt.Printf("  harness file %s does not compile against this tree (%s): left out, its jobs are inconclusive\n", f, msg)
		}
	}
	prog, spkgs := ssautil.AllPackages(pkgs, ssa.InstantiateGenerics)
	prog.Build()
	if len(spkgs) != 1 || spkgs[0] == nil {
		return nil, fmt.Errorf("expected one package, got %d", len(spkgs))
	}
	return &LoadedPkg{prog: prog, pkg: spkgs[0], wall: time.Since(start).Seconds()}, nil
}

func resetGlobals() {
	TS = &TermStore{tab: map[string]*Term{}, vars: map[string]*Term{}}
	TTrue = TS.intern(&Term{op: OConst, sort: SBool, b: true})
	TFalse = TS.intern(&Term{op: OConst, sort: SBool, b: false})
	strIntern = map[string]int{}
	strByID = nil
	objCounter = 0
	params = map[string]int64{}
}

type FuncInfo struct {
	Name   string `json:"name"`
	Instrs int    `json:"ssa_instrs"`
	Hash   string `json:"ssa_sha256"`
	Calls  int    `json:"calls"`
}

type InstanceResult struct {
	Job       string
	Params    map[string]int64
	Queries   []*QueryResult
	Funcs     []FuncInfo
	ExecSecs  float64
	Err       string
	Forks     int
	Instrs    int
	FeasCalls int
	Nondets   int
	pending   []*work
	solvers   []string
	timeout   int
}

func funcInfo(fn *ssa.Function, calls int) FuncInfo {
	var sb strings.Builder
	fn.WriteTo(&sb)
	n := 0
	for _, b := range fn.Blocks {
		n += len(b.Instrs)
	}
	h := sha256.Sum256([]byte(sb.String()))
	return FuncInfo{Name: fn.String(), Instrs: n, Hash: fmt.Sprintf("%x", h[:8]), Calls: calls}
}

// runInstance executes one harness instance symbolically and solves its queries.
func runInstance(lp *LoadedPkg, js *JobSpec, ps map[string]int64, pools map[string]*SolverPool, feasPool *SolverPool) (res *InstanceResult) {
	res = &InstanceResult{Job: js.Name, Params: ps}
	resetGlobals()
	for k, v := range ps {
		params[k] = v
	}
	floatUF = js.FloatUF
	fixedNow = js.FixedNow
	allowPkgs = map[string]bool{}
	for _, p := range js.AllowPkgs {
		allowPkgs[p] = true
	}
	e := NewEngine(lp.prog, lp.pkg)
	for k, v := range js.Stubs {
		e.stubs[k] = v
	}
	for _, n := range js.Noops {
		e.noops[n] = true
	}
	if js.Unwind > 0 {
		e.unwind = js.Unwind
	}
	e.trace = os.Getenv("SYMGO_TRACE") != ""
	budget := js.ExecBudget
	if budget == 0 {
		budget = 400
	}
	e.deadline = time.Now().Add(time.Duration(budget) * time.Second)
	timeout := js.Timeout
	if timeout == 0 {
		timeout = 120
	}
	e.feas = func(f *Term) string {
		script, _ := Script([]*Term{f}, false)
		r := feasPool.Solve(script, nil, false, 20)
		return r.Status
	}
	entry := lp.pkg.Func(js.Entry)
	if entry == nil {
		res.Err = "entry function not found: " + js.Entry
		for f, msg := range droppedHarness[js.Pkg+"|"+js.Harness] {
			res.Err += fmt.Sprintf(" (harness file %s does not compile against this tree: %s)", f, msg)
		}
		return
	}
	start := time.Now()
	func() {
		defer func() {
			if r := recover(); r != nil {
				if u, ok := r.(unsupportedErr); ok {
					res.Err = u.Error()
				} else {
					res.Err = fmt.Sprintf("engine panic: %v\n%s", r, debug.Stack())
				}
			}
		}()
		st := NewState()
		for _, ip := range js.InitPkgs {
			e.initPkgs[ip] = true
		}
		for _, ip := range js.InitPkgs {
			p := lp.prog.ImportedPackage(ip)
			if p == nil {
				panic(unsupported("init package %s not loaded", ip))
			}
			if f := p.Func("init"); f != nil {
				nst, _ := e.callFunction(st, f, nil, nil, nil, nil)
				if nst == nil {
					panic(unsupported("init of %s did not return", ip))
				}
				st = nst
			}
		}
		e.callFunction(st, entry, nil, nil, nil, nil)
	}()
	res.ExecSecs = time.Since(start).Seconds()
	res.Forks, res.Instrs, res.FeasCalls, res.Nondets = e.forks, e.instrs, e.feasCalls, len(e.nondets)
	for fn, c := range e.funcsSeen {
		res.Funcs = append(res.Funcs, funcInfo(fn, c))
	}
	sort.Slice(res.Funcs, func(i, j int) bool { return res.Funcs[i].Name < res.Funcs[j].Name })
	if res.Err != "" {
		return
	}
	solvers := js.Solvers
	if len(solvers) == 0 {
		solvers = []string{"z3-new", "cvc5", "z3"}
	}
	// print scripts sequentially (term store is not concurrent), solve in parallel
	var ws []*work
	for _, q := range e.queries {
		script, vars := Script([]*Term{q.Formula}, true)
		qr := &QueryResult{Job: js.Name, Params: ps, Kind: q.Kind, Label: q.Label, Pos: q.Pos, Size: termSize(q.Formula), Script: script}
		if q.Formula.IsFalse() {
			qr.Status = "unsat"
			qr.Solver = "simplifier"
			res.Queries = append(res.Queries, qr)
			continue
		}
		if q.Formula.IsTrue() {
			qr.Status = "sat"
			qr.Solver = "simplifier"
			qr.Model = map[string]int64{}
			res.Queries = append(res.Queries, qr)
			continue
		}
		if checkProp != "" && q.Kind == "assert" && !relevant(checkProp, q.Label) {
			// obligation of another property: neither assumed nor decided in this check
			qr.Status = "skipped"
			qr.Solver = "not-relevant"
			res.Queries = append(res.Queries, qr)
			continue
		}
		res.Queries = append(res.Queries, qr)
		ws = append(ws, &work{qr, script, vars})
	}
	res.pending = ws
	res.solvers = solvers
	res.timeout = timeout
	return
}

// solver diff bookkeeping
var (
	diffFrac                    float64
	diffSeed                    int64
	diffMu                      sync.Mutex
	diffRun, diffAgree, diffBad int
)

func diffPick(script string) bool {
	h := sha256.Sum256([]byte(fmt.Sprintf("%d|%s", diffSeed, script)))
	return float64(h[0])/256.0 < diffFrac
}

type work struct {
	qr     *QueryResult
	script string
	vars   []string
}

// solveAll decides the pending queries of all instances with a global worker pool.
func solveAll(rs []*InstanceResult, pools map[string]*SolverPool, workers int) {
	type item struct {
		w *work
		r *InstanceResult
	}
	ch := make(chan item, 1024)
	var wg sync.WaitGroup
	for i := 0; i < workers; i++ {
		wg.Add(1)
		go func() {
			defer wg.Done()
			for it := range ch {
				w := it.w
				for _, sn := range it.r.solvers {
					r := pools[sn].Solve(w.script, w.vars, true, it.r.timeout)
					w.qr.Secs += r.Secs
					w.qr.Status, w.qr.Solver = r.Status, r.Solver
					if r.Status == "sat" {
						w.qr.RawModel = r.Model
						w.qr.Model = map[string]int64{}
						for k, v := range r.Model {
							if iv, ok := modelInt(v); ok {
								w.qr.Model[k] = iv
							}
						}
					}
					if r.Status == "sat" || r.Status == "unsat" {
						break
					}
				}
				// solver diff: re-decide a seeded sample with a different back end
				if diffFrac > 0 && (w.qr.Status == "sat" || w.qr.Status == "unsat") && diffPick(w.script) {
					alt := "cvc5"
					if w.qr.Solver == "cvc5" || w.qr.Solver == "cvc5int" {
						alt = "z3-new"
					}
					if ap, ok := pools[alt]; ok {
						r2 := ap.Solve(w.script, nil, false, 60)
						diffMu.Lock()
						diffRun++
						if (r2.Status == "sat" || r2.Status == "unsat") && r2.Status != w.qr.Status {
							diffBad++
							w.qr.Status = "disagree(" + w.qr.Solver + "=" + w.qr.Status + "," + alt + "=" + r2.Status + ")"
						} else if r2.Status == "sat" || r2.Status == "unsat" {
							diffAgree++
						}
						diffMu.Unlock()
					}
				}
			}
		}()
	}
	for _, r := range rs {
		for _, w := range r.pending {
			ch <- item{w, r}
		}
		r.pending = nil
	}
	close(ch)
	wg.Wait()
}

func expandGrid(g map[string][]int64, skip []map[string]int64) []map[string]int64 {
	keys := make([]string, 0, len(g))
	for k := range g {
		keys = append(keys, k)
	}
	sort.Strings(keys)
	out := []map[string]int64{{}}
	for _, k := range keys {
		var nxt []map[string]int64
		for _, m := range out {
			for _, v := range g[k] {
				n := map[string]int64{}
				for a, b := range m {
					n[a] = b
				}
				n[k] = v
				nxt = append(nxt, n)
			}
		}
		out = nxt
	}
	var res []map[string]int64
outer:
	for _, m := range out {
		for _, s := range skip {
			match := true
			for k, v := range s {
				if m[k] != v {
					match = false
				}
			}
			if match {
				continue outer
			}
		}
		res = append(res, m)
	}
	return res
}

func paramStr(ps map[string]int64) string {
	keys := make([]string, 0, len(ps))
	for k := range ps {
		keys = append(keys, k)
	}
	sort.Strings(keys)
	var parts []string
	for _, k := range keys {
		parts = append(parts, fmt.Sprintf("%s=%d", k, ps[k]))
	}
	return strings.Join(parts, ",")
}

func main() {
	if len(os.Args) < 2 {
		fmt.Println("usage: symgo check <property> [--tier quick|thorough] | symgo run ...")
		os.Exit(2)
	}
	switch os.Args[1] {
	case "check":
		os.Exit(cmdCheck(os.Args[2:]))
	case "run":
		os.Exit(cmdRun(os.Args[2:]))
	default:
		fmt.Println("unknown command")
		os.Exit(2)
	}
}

func mkPools(names []string, n int) map[string]*SolverPool {
	pools := map[string]*SolverPool{}
	for _, s := range names {
		p, err := NewPool(s, n)
		if err != nil {
			fmt.Println("cannot start solver", s, err)
			os.Exit(2)
		}
		pools[s] = p
	}
	return pools
}

// cmdRun: ad-hoc single instance, prints every query.
func cmdRun(args []string) int {
	fs := flag.NewFlagSet("run", flag.ExitOnError)
	pkg := fs.String("pkg", "motion", "package dir under /repo")
	harness := fs.String("harness", "motion", "harness dir")
	entry := fs.String("entry", "", "entry function")
	pstr := fs.String("params", "", "k=v,k=v")
	stubs := fs.String("stubs", "", "callee=stub;callee=stub")
	noops := fs.String("noops", "", "callee;callee")
	fnow := fs.Int64("now", 0, "fixed time.Now (ns since 1970)")
	inits := fs.String("init", "", "packages whose init() runs first, comma separated")
	allow := fs.String("allow", "", "extra allow-listed packages, comma separated")
	nolem := fs.Bool("nolemmas", false, "disable zzLemma")
	rewrite := fs.String("rewrite", "", "native rewrite entries file.go:Recv.Method=stub;...")
	fix := fs.String("fix", "", "replay.json whose vals make the run concrete")
	uf := fs.Bool("uf", false, "floats as UF")
	dump := fs.String("dump", "", "dump scripts to dir")
	timeout := fs.Int("timeout", 60, "per-query timeout")
	solvers := fs.String("solvers", "z3-new", "comma separated")
	replay := fs.Bool("replay", false, "replay sat assert/panic queries natively")
	fs.Parse(args)
	js := &JobSpec{Name: "adhoc", Pkg: *pkg, Harness: *harness, Entry: *entry, FloatUF: *uf, Timeout: *timeout, Stubs: map[string]string{}}
	js.Solvers = strings.Split(*solvers, ",")
	ps := map[string]int64{}
	if *pstr != "" {
		for _, kv := range strings.Split(*pstr, ",") {
			p := strings.SplitN(kv, "=", 2)
			v, _ := strconv.ParseInt(p[1], 10, 64)
			ps[p[0]] = v
		}
	}
	if *fix != "" {
		b, err := os.ReadFile(*fix)
		if err != nil {
			fmt.Println(err)
			return 2
		}
		var doc struct {
			Vals map[string]int64 `json:"vals"`
		}
		json.Unmarshal(b, &doc)
		fixedVals = doc.Vals
		if fixedVals == nil {
			fixedVals = map[string]int64{}
		}
	}
	lemmasOff = *nolem
	js.FixedNow = *fnow
	if *inits != "" {
		js.InitPkgs = strings.Split(*inits, ",")
	}
	if *allow != "" {
		js.AllowPkgs = strings.Split(*allow, ",")
	}
	if *rewrite != "" {
		js.Rewrite = strings.Split(*rewrite, ";")
	}
	if *noops != "" {
		js.Noops = strings.Split(*noops, ";")
	}
	if *stubs != "" {
		for _, kv := range strings.Split(*stubs, ";") {
			p := strings.SplitN(kv, "=", 2)
			js.Stubs[p[0]] = p[1]
		}
	}
	lp, err := loadPkg(js.Pkg, js.Harness)
	if err != nil {
		fmt.Println("load error:", err)
		return 2
	}
	fmt.Printf("loaded in %.1fs\n", lp.wall)
	pn := 16
	if v := os.Getenv("SYMGO_POOL"); v != "" {
		pn, _ = strconv.Atoi(v)
	}
	pools := mkPools(js.Solvers, pn)
	r := runInstance(lp, js, ps, pools, pools[js.Solvers[0]])
	solveAll([]*InstanceResult{r}, pools, 16)
	fmt.Printf("exec %.2fs instrs=%d forks=%d feas=%d nondets=%d funcs=%d err=%q\n", r.ExecSecs, r.Instrs, r.Forks, r.FeasCalls, r.Nondets, len(r.Funcs), r.Err)
	rc := 0
	for i, q := range r.Queries {
		fmt.Printf("  [%s] %-40s %-8s %6.2fs nodes=%d %s %s\n", q.Kind, q.Label, q.Status, q.Secs, q.Size, q.Solver, q.Pos)
		if *dump != "" {
			os.MkdirAll(*dump, 0755)
			os.WriteFile(filepath.Join(*dump, fmt.Sprintf("q%03d.smt2", i)), []byte(q.Script+"(check-sat)\n"), 0644)
		}
		bad := (q.Kind != "reach" && q.Status != "unsat") || (q.Kind == "reach" && q.Status != "sat" && q.Status != "unsat")
		if bad {
			rc = 1
			if q.Status == "sat" {
				fmt.Printf("      model: %v\n", q.Model)
				if *replay {
					rr := nativeReplay(js, ps, q, filepath.Join(os.TempDir(), "symgo-replay"))
					fmt.Printf("      replay: reproduced=%v %s\n", rr.Reproduced, rr.Summary)
				}
			}
		}
	}
	if r.Err != "" {
		return 2
	}
	return rc
}

type ReplayResult struct {
	Reproduced bool
	Summary    string
	Dir        string
	Output     string
}

// satLabels: assertion labels with a sat verdict in the instance being replayed.
var satLabels = map[string]bool{}

// nativeReplay runs the harness natively under go test with the model's values.
func nativeReplay(js *JobSpec, ps map[string]int64, q *QueryResult, dir string) ReplayResult {
	os.MkdirAll(dir, 0755)
	ov, _, err := harnessOverlay(js.Pkg, js.Harness, true)
	if err != nil {
		return ReplayResult{Summary: "overlay error: " + err.Error()}
	}
	// native forwarding of stubbed static callees
	if len(js.Rewrite) > 0 {
		if err := rewriteForNative(js, ov); err != nil {
			return ReplayResult{Summary: "rewrite error: " + err.Error()}
		}
	}
	repl := map[string]string{}
	for path, content := range ov {
		fn := filepath.Join(dir, strings.ReplaceAll(strings.TrimPrefix(path, "/"), "/", "__"))
		os.WriteFile(fn, content, 0644)
		repl[path] = fn
	}
	ovj, _ := json.MarshalIndent(map[string]interface{}{"Replace": repl}, "", " ")
	ovFile := filepath.Join(dir, "overlay.json")
	os.WriteFile(ovFile, ovj, 0644)
	vals, _ := json.MarshalIndent(map[string]interface{}{"vals": q.Model, "params": ps, "entry": js.Entry, "label": q.Label, "kind": q.Kind, "pkg": js.Pkg}, "", " ")
	valFile := filepath.Join(dir, "replay.json")
	os.WriteFile(valFile, vals, 0644)
	cmdline := fmt.Sprintf("cd %s && ZZ_PROP="+checkProp+" ZZ_REPLAY=%s ZZ_ENTRY=%s GOFLAGS=-mod=mod GOPROXY=off go test -vet=off -count=1 -run '^TestZZReplay$' -v -overlay %s ./%s", repoDir, valFile, js.Entry, ovFile, js.Pkg)
	os.WriteFile(filepath.Join(dir, "replay.sh"), []byte("#!/bin/sh\n"+cmdline+"\n"), 0755)
	cmd := exec.Command("timeout", "600", "go", "test", "-vet=off", "-count=1", "-run", "^TestZZReplay$", "-v", "-overlay", ovFile, "./"+js.Pkg)
	cmd.Dir = repoDir
	cmd.Env = append(goEnv(), "ZZ_REPLAY="+valFile, "ZZ_ENTRY="+js.Entry, "ZZ_PROP="+checkProp)
	out, _ := cmd.CombinedOutput()
	os.WriteFile(filepath.Join(dir, "output.txt"), out, 0644)
	so := string(out)
	rr := ReplayResult{Dir: dir, Output: so}
	switch q.Kind {
	case "assert":
		if strings.Contains(so, "ZZ-ASSERT-FAIL "+q.Label+"\n") || strings.Contains(so, "ZZ-INV-FAIL "+q.Label+"\n") {
			rr.Reproduced = true
			rr.Summary = "native run fails the same assertion"
		} else if strings.Contains(so, "ZZ-ASSERT-FAIL ") {
			i := strings.Index(so, "ZZ-ASSERT-FAIL ")
			line := strings.SplitN(so[i:], "\n", 2)[0]
			lbl := strings.TrimPrefix(line, "ZZ-ASSERT-FAIL ")
			// an earlier assertion failing natively counts only if the engine also found
			// that assertion violable in this instance; otherwise engine and native disagree
			if satLabels[lbl] {
				rr.Reproduced = true
				rr.Summary = "native run fails an earlier assertion that is also violated symbolically: " + line
			} else {
				rr.Summary = "native run fails a different assertion that the engine proved: " + line
			}
		} else if strings.Contains(so, "ZZ-PANIC") {
			rr.Reproduced = true
			rr.Summary = "native run panics: " + firstLineWith(so, "ZZ-PANIC")
		} else {
			rr.Summary = "native run did not fail: " + lastLines(so, 3)
		}
	case "panic":
		if strings.Contains(so, "ZZ-PANIC") {
			rr.Reproduced = true
			rr.Summary = "native run panics: " + firstLineWith(so, "ZZ-PANIC")
		} else {
			rr.Summary = "native run did not panic: " + lastLines(so, 3)
		}
	case "reach":
		if strings.Contains(so, "ZZ-REACH "+q.Label+"\n") {
			rr.Reproduced = true
			rr.Summary = "native run reaches the label"
		} else {
			rr.Summary = "native run did not reach label: " + lastLines(so, 3)
		}
	default:
		rr.Summary = "no native replay for kind " + q.Kind
	}
	return rr
}

func firstLineWith(s, sub string) string {
	for _, l := range strings.Split(s, "\n") {
		if strings.Contains(l, sub) {
			return l
		}
	}
	return ""
}

func lastLines(s string, n int) string {
	ls := strings.Split(strings.TrimSpace(s), "\n")
	if len(ls) > n {
		ls = ls[len(ls)-n:]
	}
	return strings.Join(ls, " | ")
}
