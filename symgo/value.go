package main

// Values of the symbolic interpreter and their guarded merge.

import (
	"fmt"
	"go/types"

	"golang.org/x/tools/go/ssa"
)

type Value interface{}

// Obj is the identity of a heap object; its contents live in State.heap.
type Obj struct {
	id    int
	label string
	elem  types.Type // element type (object is an array of n elems)
	n     int        // number of elements
	esz   int        // cells per element
	glob  bool       // package-level variable: exists (zero) in every state
}

func (o *Obj) String() string { return fmt.Sprintf("obj%d(%s)", o.id, o.label) }

type PtrAlt struct {
	g   *Term
	obj *Obj // nil = nil pointer
	off int  // cell offset
}

// PtrV is a guarded set of concrete targets. typ is the pointee type.
type PtrV struct {
	alts []PtrAlt
}

type ObjAlt struct {
	g    *Term
	obj  *Obj
	base int // cell offset of element 0 of the backing array inside obj
	n    int // number of elements of the backing array
}

// SliceV: backing array object (guarded alternatives), element offset, len, cap.
type SliceV struct {
	alts []ObjAlt // empty = nil slice
	off  *Term    // element index of slice[0] in obj (64-bit)
	len  *Term
	cap  *Term
}

type IfaceAlt struct {
	g   *Term
	typ types.Type // nil = nil interface
	v   Value
}

type IfaceV struct {
	alts []IfaceAlt
}

// StrV: strings are interned to 32-bit ids; concrete strings keep their text.
type StrV struct {
	conc  bool
	s     string
	id    *Term   // BV32 (nil when bytes != nil)
	bytes []*Term // short string of symbolic bytes (from string([]byte))
	lenT  *Term   // length when known (64-bit), also for merged concrete strings
}

type StructV struct {
	fields []Value
}

type ArrayV struct {
	elems []Value
}

type FuncV struct {
	fn       *ssa.Function // nil = nil func
	bindings []Value
	builtin  string // harness-provided intrinsic closures
}

type TupleV struct {
	vs []Value
}

// TimeV models time.Time as signed 128-bit nanoseconds since year 1 UTC
// (no monotonic reading, no location).
type TimeV struct {
	ns *Term
}

// MapV is a reference to a heap object whose single cell holds an immutable
// MapContent (maps have reference semantics and must follow state merges).
type MapV struct {
	obj *Obj // nil = nil map
}

type mapEnt struct {
	present *Term
	v       Value
}

// IterV: a map iterator (ssa.Range): snapshot of the key list at creation and
// a heap cell holding the (possibly symbolic) position.
type IterV struct {
	m    *MapV
	keys []string
	pos  *Obj
}

// MapContent: concrete string keys, each with a presence guard.
type MapContent struct {
	keys []string
	ents map[string]mapEnt
}

// ---------- strings

var strIntern = map[string]int{}
var strByID = []string{}

func internStr(s string) *Term {
	id, ok := strIntern[s]
	if !ok {
		id = len(strByID)
		strIntern[s] = id
		strByID = append(strByID, s)
	}
	return BVConst(int64(id), 32)
}

func ConcStr(s string) *StrV {
	return &StrV{conc: true, s: s, id: internStr(s), lenT: BVConst(int64(len(s)), 64)}
}

// ---------- pointers

func NilPtr() *PtrV { return &PtrV{alts: []PtrAlt{{g: TTrue, obj: nil}}} }
func PtrTo(o *Obj, off int) *PtrV {
	return &PtrV{alts: []PtrAlt{{g: TTrue, obj: o, off: off}}}
}

func (p *PtrV) addAlt(g *Term, o *Obj, off int) {
	if g.IsFalse() {
		return
	}
	for i := range p.alts {
		if p.alts[i].obj == o && p.alts[i].off == off {
			p.alts[i].g = Or(p.alts[i].g, g)
			return
		}
	}
	p.alts = append(p.alts, PtrAlt{g, o, off})
}

func PtrEq(a, b *PtrV) *Term {
	var ds []*Term
	for _, x := range a.alts {
		for _, y := range b.alts {
			if x.obj == y.obj && (x.obj == nil || x.off == y.off) {
				ds = append(ds, And(x.g, y.g))
			}
		}
	}
	return Or(ds...)
}

func (p *PtrV) IsNil() *Term {
	var ds []*Term
	for _, x := range p.alts {
		if x.obj == nil {
			ds = append(ds, x.g)
		}
	}
	return Or(ds...)
}

// ---------- merge

func mergeAlts(c *Term, a, b []ObjAlt) []ObjAlt {
	var out []ObjAlt
	add := func(g *Term, x ObjAlt) {
		if g.IsFalse() {
			return
		}
		for i := range out {
			if out[i].obj == x.obj && out[i].base == x.base && out[i].n == x.n {
				out[i].g = Or(out[i].g, g)
				return
			}
		}
		out = append(out, ObjAlt{g, x.obj, x.base, x.n})
	}
	for _, x := range a {
		add(And(c, x.g), x)
	}
	nc := Not(c)
	for _, x := range b {
		add(And(nc, x.g), x)
	}
	return out
}

// IteV returns the value equal to a when c holds and b otherwise.
func IteV(c *Term, a, b Value) Value {
	if c.IsTrue() {
		return a
	}
	if c.IsFalse() {
		return b
	}
	if a == nil {
		return b
	}
	if b == nil {
		return a
	}
	switch x := a.(type) {
	case *Term:
		y, ok := b.(*Term)
		if !ok {
			panic(fmt.Sprintf("IteV kind mismatch %T vs %T", a, b))
		}
		if x == y {
			return x
		}
		return Ite(c, x, y)
	case *PtrV:
		y := b.(*PtrV)
		if x == y {
			return x
		}
		r := &PtrV{}
		for _, al := range x.alts {
			r.addAlt(And(c, al.g), al.obj, al.off)
		}
		nc := Not(c)
		for _, al := range y.alts {
			r.addAlt(And(nc, al.g), al.obj, al.off)
		}
		return r
	case *SliceV:
		y := b.(*SliceV)
		if x == y {
			return x
		}
		return &SliceV{alts: mergeAlts(c, x.alts, y.alts), off: Ite(c, x.off, y.off), len: Ite(c, x.len, y.len), cap: Ite(c, x.cap, y.cap)}
	case *IfaceV:
		y := b.(*IfaceV)
		if x == y {
			return x
		}
		r := &IfaceV{}
		nc := Not(c)
		add := func(g *Term, al IfaceAlt) {
			if g.IsFalse() {
				return
			}
			for i := range r.alts {
				if (r.alts[i].typ == nil && al.typ == nil) || (r.alts[i].typ != nil && al.typ != nil && types.Identical(r.alts[i].typ, al.typ)) {
					og := r.alts[i].g
					r.alts[i].g = Or(og, g)
					if al.typ != nil {
						r.alts[i].v = IteV(g, al.v, r.alts[i].v)
					}
					return
				}
			}
			r.alts = append(r.alts, IfaceAlt{g, al.typ, al.v})
		}
		for _, al := range x.alts {
			add(And(c, al.g), al)
		}
		for _, al := range y.alts {
			add(And(nc, al.g), al)
		}
		return r
	case *StrV:
		y := b.(*StrV)
		if x == y || (x.conc && y.conc && x.s == y.s) {
			return x
		}
		if x.bytes != nil || y.bytes != nil {
			panic(unsupported("merge of byte-strings"))
		}
		r := &StrV{id: Ite(c, x.id, y.id)}
		if x.lenT != nil && y.lenT != nil {
			r.lenT = Ite(c, x.lenT, y.lenT)
		}
		return r
	case *StructV:
		y := b.(*StructV)
		if x == y {
			return x
		}
		r := &StructV{fields: make([]Value, len(x.fields))}
		for i := range x.fields {
			r.fields[i] = IteV(c, x.fields[i], y.fields[i])
		}
		return r
	case *ArrayV:
		y := b.(*ArrayV)
		if x == y {
			return x
		}
		r := &ArrayV{elems: make([]Value, len(x.elems))}
		for i := range x.elems {
			r.elems[i] = IteV(c, x.elems[i], y.elems[i])
		}
		return r
	case *TupleV:
		y := b.(*TupleV)
		r := &TupleV{vs: make([]Value, len(x.vs))}
		for i := range x.vs {
			r.vs[i] = IteV(c, x.vs[i], y.vs[i])
		}
		return r
	case *TimeV:
		y := b.(*TimeV)
		return &TimeV{ns: Ite(c, x.ns, y.ns)}
	case *FuncV:
		y := b.(*FuncV)
		if x == y || (x.fn == y.fn && x.builtin == y.builtin && len(x.bindings) == 0 && len(y.bindings) == 0) {
			return x
		}
		if x.fn == y.fn && len(x.bindings) == len(y.bindings) {
			r := &FuncV{fn: x.fn, builtin: x.builtin, bindings: make([]Value, len(x.bindings))}
			for i := range x.bindings {
				r.bindings[i] = IteV(c, x.bindings[i], y.bindings[i])
			}
			return r
		}
		panic(unsupported("merge of distinct func values"))
	case *MapV:
		y := b.(*MapV)
		if x.obj == y.obj {
			return x
		}
		panic(unsupported("merge of distinct maps"))
	case *IterV:
		if y, ok := b.(*IterV); ok && x == y {
			return x
		}
		panic(unsupported("merge of distinct map iterators"))
	case *MapContent:
		y := b.(*MapContent)
		if x == y {
			return x
		}
		r := &MapContent{ents: map[string]mapEnt{}}
		for _, k := range x.keys {
			r.keys = append(r.keys, k)
		}
		for _, k := range y.keys {
			if _, ok := x.ents[k]; !ok {
				r.keys = append(r.keys, k)
			}
		}
		for _, k := range r.keys {
			ex, okx := x.ents[k]
			ey, oky := y.ents[k]
			switch {
			case okx && oky:
				r.ents[k] = mapEnt{Ite(c, ex.present, ey.present), IteV(c, ex.v, ey.v)}
			case okx:
				r.ents[k] = mapEnt{And(c, ex.present), ex.v}
			default:
				r.ents[k] = mapEnt{And(Not(c), ey.present), ey.v}
			}
		}
		return r
	}
	panic(fmt.Sprintf("IteV: unhandled kind %T", a))
}

type unsupportedErr struct{ msg string }

func (u unsupportedErr) Error() string { return "unsupported: " + u.msg }
func unsupported(f string, args ...interface{}) unsupportedErr {
	return unsupportedErr{fmt.Sprintf(f, args...)}
}

// ---------- type layout

func isTimeType(t types.Type) bool {
	if n, ok := t.(*types.Named); ok {
		o := n.Obj()
		return o.Pkg() != nil && o.Pkg().Path() == "time" && o.Name() == "Time"
	}
	return false
}

func isMutexType(t types.Type) bool {
	if n, ok := t.(*types.Named); ok {
		o := n.Obj()
		return o.Pkg() != nil && o.Pkg().Path() == "sync" && (o.Name() == "Mutex" || o.Name() == "RWMutex" || o.Name() == "Once")
	}
	return false
}

var cellCountCache = map[types.Type]int{}

// cells returns how many leaf cells a value of type t occupies in memory.
func cells(t types.Type) int {
	if n, ok := cellCountCache[t]; ok {
		return n
	}
	n := cells0(t)
	cellCountCache[t] = n
	return n
}

func cells0(t types.Type) int {
	if isTimeType(t) || isMutexType(t) {
		return 1
	}
	switch u := t.Underlying().(type) {
	case *types.Struct:
		n := 0
		for i := 0; i < u.NumFields(); i++ {
			n += cells(u.Field(i).Type())
		}
		if n == 0 {
			return 0
		}
		return n
	case *types.Array:
		return int(u.Len()) * cells(u.Elem())
	}
	return 1
}

func fieldOffset(st *types.Struct, idx int) int {
	off := 0
	for i := 0; i < idx; i++ {
		off += cells(st.Field(i).Type())
	}
	return off
}

func bvWidth(b *types.Basic) int {
	switch b.Kind() {
	case types.Int8, types.Uint8:
		return 8
	case types.Int16, types.Uint16:
		return 16
	case types.Int32, types.Uint32:
		return 32
	case types.Int, types.Uint, types.Int64, types.Uint64, types.Uintptr, types.UntypedInt, types.UntypedRune:
		return 64
	}
	return 0
}

func isSigned(t types.Type) bool {
	b, ok := t.Underlying().(*types.Basic)
	if !ok {
		return false
	}
	return b.Info()&types.IsUnsigned == 0
}

func sortOf(t types.Type) (Sort, bool) {
	b, ok := t.Underlying().(*types.Basic)
	if !ok {
		return Sort{}, false
	}
	switch {
	case b.Info()&types.IsBoolean != 0:
		return SBool, true
	case b.Info()&types.IsInteger != 0:
		return SBV(bvWidth(b)), true
	case b.Kind() == types.Float32:
		return SF32, true
	case b.Kind() == types.Float64, b.Kind() == types.UntypedFloat:
		return SF64, true
	}
	return Sort{}, false
}

// zeroValue builds the Go zero value of type t.
func zeroValue(t types.Type) Value {
	if isTimeType(t) {
		return &TimeV{ns: BVConst(0, 128)}
	}
	if isMutexType(t) {
		return BVConst(0, 8)
	}
	switch u := t.Underlying().(type) {
	case *types.Basic:
		if u.Info()&types.IsString != 0 {
			return ConcStr("")
		}
		if u.Kind() == types.UnsafePointer {
			return NilPtr()
		}
		s, ok := sortOf(t)
		if !ok {
			panic(unsupported("zero value of %v", t))
		}
		switch s.K {
		case KBool:
			return TFalse
		case KBV:
			return BVConst(0, s.W)
		default:
			return FConst(0, s)
		}
	case *types.Pointer:
		return NilPtr()
	case *types.Slice:
		return &SliceV{off: BVConst(0, 64), len: BVConst(0, 64), cap: BVConst(0, 64)}
	case *types.Interface:
		return &IfaceV{alts: []IfaceAlt{{g: TTrue}}}
	case *types.Struct:
		r := &StructV{fields: make([]Value, u.NumFields())}
		for i := range r.fields {
			r.fields[i] = zeroValue(u.Field(i).Type())
		}
		return r
	case *types.Array:
		r := &ArrayV{elems: make([]Value, u.Len())}
		for i := range r.elems {
			r.elems[i] = zeroValue(u.Elem())
		}
		return r
	case *types.Signature:
		return &FuncV{}
	case *types.Map:
		return &MapV{}
	case *types.Chan:
		return NilPtr()
	case *types.Tuple:
		r := &TupleV{vs: make([]Value, u.Len())}
		for i := range r.vs {
			r.vs[i] = zeroValue(u.At(i).Type())
		}
		return r
	}
	panic(unsupported("zero value of %v", t))
}

// flatten decomposes v of type t into leaf cells; unflatten is the inverse.
func flatten(t types.Type, v Value, out []Value) []Value {
	if isTimeType(t) || isMutexType(t) {
		return append(out, v)
	}
	switch u := t.Underlying().(type) {
	case *types.Struct:
		sv := v.(*StructV)
		for i := 0; i < u.NumFields(); i++ {
			out = flatten(u.Field(i).Type(), sv.fields[i], out)
		}
		return out
	case *types.Array:
		av := v.(*ArrayV)
		for i := 0; i < int(u.Len()); i++ {
			out = flatten(u.Elem(), av.elems[i], out)
		}
		return out
	}
	return append(out, v)
}

func unflatten(t types.Type, cs []Value) (Value, []Value) {
	if isTimeType(t) || isMutexType(t) {
		return cs[0], cs[1:]
	}
	switch u := t.Underlying().(type) {
	case *types.Struct:
		sv := &StructV{fields: make([]Value, u.NumFields())}
		for i := 0; i < u.NumFields(); i++ {
			sv.fields[i], cs = unflatten(u.Field(i).Type(), cs)
		}
		return sv, cs
	case *types.Array:
		av := &ArrayV{elems: make([]Value, u.Len())}
		for i := 0; i < int(u.Len()); i++ {
			av.elems[i], cs = unflatten(u.Elem(), cs)
		}
		return av, cs
	}
	return cs[0], cs[1:]
}
