package main

import (
	"bufio"
	"encoding/json"
	"flag"
	"fmt"
	"go/ast"
	"go/parser"
	"go/printer"
	"go/token"
	"os"
	"path/filepath"
	"regexp"
	"sort"
	"strconv"
	"strings"
	"time"
)

type KnownFinding struct {
	Status   string // open | fixed
	Property string
	Job      string
	Label    string
	Text     string
}

func loadKnownFindings() []KnownFinding {
	f, err := os.Open(filepath.Join(verifDir, "known_findings.txt"))
	if err != nil {
		return nil
	}
	defer f.Close()
	var out []KnownFinding
	sc := bufio.NewScanner(f)
	for sc.Scan() {
		l := strings.TrimSpace(sc.Text())
		if l == "" || strings.HasPrefix(l, "#") {
			continue
		}
		kf := KnownFinding{}
		switch {
		case strings.HasPrefix(l, "open:"):
			kf.Status = "open"
			l = strings.TrimSpace(l[5:])
		case strings.HasPrefix(l, "fixed:"):
			kf.Status = "fixed"
			l = strings.TrimSpace(l[6:])
		default:
			continue
		}
		for _, f := range strings.Fields(l) {
			switch {
			case strings.HasPrefix(f, "property="):
				kf.Property = f[9:]
			case strings.HasPrefix(f, "job="):
				kf.Job = f[4:]
			case strings.HasPrefix(f, "label="):
				kf.Label = strings.ReplaceAll(f[6:], "_", " ")
			}
		}
		kf.Text = l
		out = append(out, kf)
	}
	return out
}

func cmdCheck(args []string) int {
	fs := flag.NewFlagSet("check", flag.ExitOnError)
	tier := fs.String("tier", "quick", "quick|thorough")
	only := fs.String("job", "", "run only this job")
	noReplay := fs.Bool("no-replay", false, "skip native replay")
	conform := fs.Int("conform", -1, "reach witnesses replayed natively per job (translator conformance); default 1 quick, 3 thorough")
	verbose := fs.Bool("v", false, "print every query")
	if len(args) < 1 {
		fmt.Println("usage: symgo check <property> [--tier ...]")
		return 2
	}
	prop := args[0]
	fs.Parse(args[1:])
	if t := os.Getenv("VERIF_TIER"); t != "" && *tier == "" {
		*tier = t
	}
	seed := int64(0)
	if s := os.Getenv("VERIF_SEED"); s != "" {
		seed, _ = strconv.ParseInt(s, 10, 64)
	}
	start := time.Now()
	checkProp = prop
	diffSeed = seed
	diffFrac = 0.05
	if *tier == "thorough" {
		diffFrac = 0.25
	}
	solverSetExtra := "cvc5"
	_ = solverSetExtra
	b, err := os.ReadFile(filepath.Join(verifDir, "checks", prop+".json"))
	if err != nil {
		fmt.Println("no check spec:", err)
		return 2
	}
	var spec CheckSpec
	if err := json.Unmarshal(b, &spec); err != nil {
		fmt.Println("bad check spec:", err)
		return 2
	}
	solverSet := map[string]bool{"z3-new": true}
	for _, j := range spec.Jobs {
		for _, s := range j.Solvers {
			solverSet[s] = true
		}
		if len(j.Solvers) == 0 {
			solverSet["z3"] = true
			solverSet["cvc5"] = true
		}
	}
	solverSet["cvc5"] = true
	var sn []string
	for s := range solverSet {
		sn = append(sn, s)
	}
	sort.Strings(sn)
	pools := mkPools(sn, 16)
	defer func() {
		for _, p := range pools {
			p.Close()
		}
	}()
	loaded := map[string]*LoadedPkg{}
	var all []*InstanceResult
	var problems []string
	loadWall := 0.0
	lemmaReruns := 0
	for ji := range spec.Jobs {
		js := &spec.Jobs[ji]
		if *only != "" && js.Name != *only {
			continue
		}
		if js.Tier == "thorough" && *tier != "thorough" {
			continue
		}
		key := js.Pkg + "|" + js.Harness
		lp, ok := loaded[key]
		if !ok {
			lp, err = loadPkg(js.Pkg, js.Harness)
			if err != nil {
				fmt.Printf("INCONCLUSIVE load %s: %v\n", js.Pkg, err)
				return 2
			}
			loaded[key] = lp
			loadWall += lp.wall
		}
		grid := js.Grid
		if *tier == "thorough" && js.GridThorough != nil {
			grid = js.GridThorough
		}
		for _, ps := range expandGrid(grid, js.Skip) {
			r := runInstance(lp, js, ps, pools, pools["z3-new"])
			all = append(all, r)
			fmt.Printf("  exec %s[%s] %.1fs instrs=%d forks=%d queries=%d %s\n", js.Name, paramStr(ps), r.ExecSecs, r.Instrs, r.Forks, len(r.Queries), r.Err)
			if r.Err != "" {
				problems = append(problems, fmt.Sprintf("%s[%s]: %s", js.Name, paramStr(ps), r.Err))
			}
		}
	}
	solveAll(all, pools, 16)
	// helper lemmas: an instance whose lemmas are not all proved is re-run without them;
	// an instance whose invariant assertions fail is re-run without assuming them
	for i, r := range all {
		bad, badInv := false, false
		for _, q := range r.Queries {
			if q.Kind == "lemma" && q.Status != "unsat" {
				bad = true
			}
			if q.Kind == "assert" && isInv(q.Label) && q.Status == "sat" {
				badInv = true
			}
		}
		if !bad && !badInv {
			continue
		}
		fmt.Printf("  %s[%s]: re-running (helper lemma unproved=%v, invariant broken=%v)\n", r.Job, paramStr(r.Params), bad, badInv)
		js := jobByName0(spec.Jobs, r.Job)
		lemmasOff, invNoAssume = bad, badInv
		// the re-run looks for counterexamples (sat is found quickly); unsat obligations
		// that needed the lemmas may be out of reach, so cap the per-query time
		js2 := *js
		if bad {
			if js2.Timeout == 0 || js2.Timeout > 40 {
				js2.Timeout = 40
			}
			if len(js2.Solvers) == 0 {
				js2.Solvers = []string{"z3-new", "cvc5"}
			}
		}
		js = &js2
		nr := runInstance(loaded[js.Pkg+"|"+js.Harness], js, r.Params, pools, pools["z3-new"])
		lemmasOff, invNoAssume = false, false
		solveAll([]*InstanceResult{nr}, pools, 16)
		all[i] = nr
		lemmaReruns++
	}
	// float refinement: with float operations encoded as uninterpreted functions, unsat
	// holds for every interpretation (so for IEEE floats), but sat may be an artefact
	// of the abstraction and its model does not replay. Obligations that are sat under
	// UF are re-decided with SMT FloatingPoint semantics: unsat = discharged, sat = a
	// model the native run can reproduce, anything else = inconclusive.
	fpRefined := 0
	for _, r := range all {
		js := jobByName0(spec.Jobs, r.Job)
		if js == nil || !js.FloatUF || fpRefined >= 3 {
			continue
		}
		var satIdx []int
		for k, q := range r.Queries {
			if (q.Kind == "assert" || q.Kind == "panic") && q.Status == "sat" {
				satIdx = append(satIdx, k)
			}
		}
		if len(satIdx) == 0 {
			continue
		}
		fpRefined++
		js2 := *js
		js2.FloatUF = false
		if js2.Timeout == 0 || js2.Timeout > 120 {
			js2.Timeout = 120
		}
		nr := runInstance(loaded[js.Pkg+"|"+js.Harness], &js2, r.Params, pools, pools["z3-new"])
		ok := nr.Err == "" && len(nr.Queries) == len(r.Queries)
		keep := map[*QueryResult]bool{}
		if ok {
			for _, k := range satIdx {
				if nr.Queries[k].Label != r.Queries[k].Label || nr.Queries[k].Kind != r.Queries[k].Kind {
					ok = false
				}
				keep[nr.Queries[k]] = true
			}
		}
		if !ok {
			fmt.Printf("  %s[%s]: float refinement not possible (%s); UF verdicts kept\n", r.Job, paramStr(r.Params), nr.Err)
			continue
		}
		var pend []*work
		for _, w := range nr.pending {
			if keep[w.qr] {
				pend = append(pend, w)
			}
		}
		nr.pending = pend
		solveAll([]*InstanceResult{nr}, pools, 16)
		n := map[string]int{}
		for _, k := range satIdx {
			nq := nr.Queries[k]
			if nq.Status == "" {
				nq.Status = "unknown"
			}
			nq.Solver += "+fp"
			n[nq.Status]++
			r.Queries[k] = nq
		}
		fmt.Printf("  %s[%s]: %d obligation(s) sat with floats as UF re-decided with FloatingPoint semantics: %v\n", r.Job, paramStr(r.Params), len(satIdx), n)
	}
	{
		{
			for _, r := range all {
				nsat, nunsat, nother := 0, 0, 0
				for _, q := range r.Queries {
					switch q.Status {
					case "sat":
						nsat++
					case "unsat":
						nunsat++
					default:
						nother++
					}
				}
				fmt.Printf("  solved %s[%s] queries=%d (unsat=%d sat=%d other=%d)\n", r.Job, paramStr(r.Params), len(r.Queries), nunsat, nsat, nother)
				if *verbose {
					for _, q := range r.Queries {
						fmt.Printf("      [%s] %-50s %-8s %.2fs %s\n", q.Kind, q.Label, q.Status, q.Secs, q.Solver)
					}
				}
			}
		}
	}
	// classify
	known := loadKnownFindings()
	violations := 0
	knownHits := map[string]bool{}
	obligations, discharged, reachQ, reachSat := 0, 0, 0, 0
	solverSecs := 0.0
	var samples []interface{}
	distinct := map[string]bool{}
	funcs := map[string]FuncInfo{}
	jobByName := map[string]*JobSpec{}
	for i := range spec.Jobs {
		jobByName[spec.Jobs[i].Name] = &spec.Jobs[i]
	}
	replayed := 0
	reported, confirmed, attempts := map[string]bool{}, map[string]bool{}, map[string]int{}
	invBroken := map[string]bool{}
	reachOK := map[string]bool{}
	slowest, slowestWhat := 0.0, ""
	lemmasProved := 0
	for _, r := range all {
		for _, f := range r.Funcs {
			if o, ok := funcs[f.Name]; ok {
				f.Calls += o.Calls
			}
			funcs[f.Name] = f
		}
		for _, q := range r.Queries {
			solverSecs += q.Secs
			if q.Secs > slowest {
				slowest = q.Secs
				slowestWhat = r.Job + "[" + paramStr(r.Params) + "] " + q.Kind + " " + q.Label + " (" + q.Solver + ")"
			}
			if q.Kind == "reach" {
				reachQ++
				rk := r.Job + "[" + paramStr(r.Params) + "]: reach \"" + q.Label + "\""
				if q.Status == "sat" {
					reachSat++
					reachOK[rk] = true
					if len(samples) < 6 {
						samples = append(samples, map[string]interface{}{"job": r.Job, "params": r.Params, "reach": q.Label, "witness": q.Model})
					}
				} else if _, seen := reachOK[rk]; !seen {
					reachOK[rk] = false
				}
				if q.Status != "sat" && q.Status != "unsat" {
					problems = append(problems, fmt.Sprintf("%s is %s", rk, q.Status))
				}
				continue
			}
			if q.Kind == "lemma" {
				lemmasProved++
				continue
			}
			if !relevant(prop, q.Label) {
				continue
			}
			obligations++
			if isInv(q.Label) && q.Status == "sat" {
				invBroken[r.Job+": "+q.Label] = true
				continue
			}
			switch q.Status {
			case "unsat":
				discharged++
				if q.Solver != "simplifier" {
					distinct[r.Job+"|"+q.Label+"|"+q.Pos+"|"+paramStr(r.Params)] = true
				}
				if len(samples) < 12 && q.Solver != "simplifier" && q.Kind == "assert" && !reported["s"+r.Job+q.Label] {
					reported["s"+r.Job+q.Label] = true
					samples = append(samples, map[string]interface{}{"job": r.Job, "params": r.Params, "obligation": q.Label, "kind": q.Kind, "verdict": "unsat", "solver": q.Solver, "secs": q.Secs, "term_nodes": q.Size})
				}
			case "sat":
				// known finding?
				isKnown := false
				for _, kf := range known {
					if kf.Status == "open" && kf.Property == prop && kf.Job == r.Job && kf.Label == q.Label {
						isKnown = true
						if !knownHits[kf.Text] {
							knownHits[kf.Text] = true
							fmt.Printf("KNOWN-FINDING: property=%s %s\n", prop, kf.Text)
						}
					}
				}
				if isKnown {
					continue
				}
				key := r.Job + "|" + q.Kind + "|" + q.Label + "|" + q.Pos
				if reported[key] {
					// same obligation in another instance: counted only when the first one was confirmed natively
					if confirmed[key] {
						violations++
						continue
					}
					if attempts[key] >= 2 {
						continue
					}
				}
				reported[key] = true
				attempts[key]++
				dir := filepath.Join(outDir, "replays", prop, sanitize(r.Job+"-"+paramStr(r.Params)+"-"+q.Label))
				if violations > 0 && replayed >= 3 {
					// enough confirmed counterexamples; further sat obligations are counted only
					violations++
					continue
				}
				if *noReplay {
					fmt.Printf("SAT (not replayed) %s[%s] %s %q model=%v\n", r.Job, paramStr(r.Params), q.Kind, q.Label, q.Model)
					violations++
					continue
				}
				satLabels = map[string]bool{}
				for _, q2 := range r.Queries {
					if q2.Status == "sat" && q2.Kind == "assert" {
						satLabels[q2.Label] = true
					}
				}
				rr := nativeReplay(jobByName[r.Job], r.Params, q, dir)
				replayed++
				if rr.Reproduced {
					violations++
					confirmed[key] = true
					fmt.Printf("counterexample %s[%s] %s %q at %s: %s\n", r.Job, paramStr(r.Params), q.Kind, q.Label, q.Pos, rr.Summary)
					fmt.Printf("VIOLATION property=%s replay=%s\n", prop, filepath.Join(dir, "replay.sh"))
				} else {
					problems = append(problems, fmt.Sprintf("%s[%s]: %s %q sat but native replay did not reproduce (%s) -- encoding/stub error, see %s", r.Job, paramStr(r.Params), q.Kind, q.Label, rr.Summary, dir))
				}
			default:
				problems = append(problems, fmt.Sprintf("%s[%s]: %s %q inconclusive: %s", r.Job, paramStr(r.Params), q.Kind, q.Label, q.Status))
			}
		}
	}
	reachLabels, reachWitnessed := 0, 0
	for _, k := range keys2(reachOK) {
		reachLabels++
		if reachOK[k] {
			reachWitnessed++
		} else {
			problems = append(problems, k+" is never satisfiable (vacuous harness)")
		}
	}
	// translator conformance: replay some reachability witnesses natively; the
	// native run must hit the same label (engine and compiler agree on that path)
	nconf := *conform
	if nconf < 0 {
		nconf = 1
		if *tier == "thorough" {
			nconf = 3
		}
	}
	conformRun, conformOK := 0, 0
	if !*noReplay && violations == 0 {
		perJob := map[string]int{}
		seenLabel := map[string]bool{}
		for _, r := range all {
			for _, q := range r.Queries {
				if q.Kind != "reach" || q.Status != "sat" || perJob[r.Job] >= nconf || seenLabel[r.Job+q.Label] {
					continue
				}
				// prefer witnesses deep in the harness: skip the first (pre-state) label when others exist
				perJob[r.Job]++
				seenLabel[r.Job+q.Label] = true
				dir := filepath.Join(outDir, "replays", prop, "conform-"+sanitize(r.Job+"-"+paramStr(r.Params)+"-"+q.Label))
				rr := nativeReplay(jobByName[r.Job], r.Params, q, dir)
				conformRun++
				if rr.Reproduced {
					conformOK++
					os.RemoveAll(dir)
				} else {
					problems = append(problems, fmt.Sprintf("%s[%s]: conformance: reach witness %q does not reproduce natively (%s), see %s", r.Job, paramStr(r.Params), q.Label, rr.Summary, dir))
				}
			}
		}
	}
	var fl []FuncInfo
	for _, f := range funcs {
		fl = append(fl, f)
	}
	sort.Slice(fl, func(i, j int) bool { return fl[i].Name < fl[j].Name })
	var bounds []string
	for _, j := range spec.Jobs {
		g := j.Grid
		if *tier == "thorough" && j.GridThorough != nil {
			g = j.GridThorough
		}
		if j.Tier == "thorough" && *tier != "thorough" {
			continue
		}
		gb, _ := json.Marshal(g)
		bounds = append(bounds, fmt.Sprintf("%s: entry %s, parameter grid %s, unwind %d", j.Name, j.Entry, gb, maxInt(j.Unwind, 64)))
	}
	wall := time.Since(start).Seconds()
	ev := map[string]interface{}{
		"property_id": prop,
		"tier":        *tier,
		"seed":        seed,
		"level":       "other",
		"wall_s":      wall,
		"violations":  violations,
		"assumptions": spec.Assumptions,
		"coverage": map[string]interface{}{
			"explanation":                    spec.Explanation,
			"obligations":                    obligations,
			"discharged":                     discharged,
			"evaluations":                    obligations + reachQ,
			"distinct_nontrivial":            len(distinct),
			"rule":                           "one evaluation = one SMT query (assertion, implicit panic condition, unwinding assertion or reachability witness) produced by symbolically executing the harness entry over the SSA of /repo's current source; distinct_nontrivial counts unsat obligations that differ in (job, label, source position, parameters) and were decided by an SMT solver rather than by the term simplifier",
			"samples":                        samples,
			"reach_queries":                  reachQ,
			"reach_witnessed":                reachSat,
			"functions_encoded":              fl,
			"stubs":                          spec.StubsDoc,
			"bounds":                         bounds,
			"outside_claim":                  spec.Outside,
			"solver_time_s":                  solverSecs,
			"slowest_query_s":                slowest,
			"slowest_query":                  slowestWhat,
			"solvers":                        sn,
			"instances":                      len(all),
			"package_load_s":                 loadWall,
			"replayed_natively":              replayed,
			"solver_diff_queries":            diffRun,
			"solver_diff_agreeing":           diffAgree,
			"solver_diff_disagreeing":        diffBad,
			"conformance_witnesses_replayed": conformRun,
			"conformance_witnesses_agreeing": conformOK,
			"inconclusive":                   problems,
			"inductive_invariant_broken":     keys(invBroken),
		},
	}
	os.MkdirAll(filepath.Join(outDir, "evidence"), 0755)
	eb, _ := json.MarshalIndent(ev, "", " ")
	os.WriteFile(filepath.Join(outDir, "evidence", prop+".json"), eb, 0644)
	fmt.Printf("%s tier=%s instances=%d obligations=%d discharged=%d reach-labels=%d/%d violations=%d problems=%d solver=%.1fs slowest=%.1fs wall=%.1fs\n",
		prop, *tier, len(all), obligations, discharged, reachWitnessed, reachLabels, violations, len(problems), solverSecs, slowest, wall)
	if violations > 0 {
		return 1
	}
	for k := range invBroken {
		fmt.Printf("NOTE: inductive invariant not preserved on this tree (%s); no property-level violation found by the step lemmas or the BMC jobs, so the claim for %s is reduced to the BMC bound\n", k, prop)
	}
	if len(problems) > 0 {
		for _, p := range problems {
			fmt.Println("INCONCLUSIVE:", p)
		}
		return 2
	}
	return 0
}

var propTagRe = regexp.MustCompile(`C[0-9][0-9]`)

// relevant: an obligation belongs to a property if its label names the
// property, or names no property at all (generic: panics, protocol, Inv).
func relevant(prop, label string) bool {
	tags := propTagRe.FindAllString(label, -1)
	if len(tags) == 0 {
		return true
	}
	for _, t := range tags {
		if t == prop {
			return true
		}
	}
	return false
}

// isInv: inductive-hypothesis obligations (representation invariant of the
// successor state). Their failure alone is not a property violation.
func isInv(label string) bool { return strings.HasPrefix(label, "Inv:") }

func maxInt(a, b int) int {
	if a > b {
		return a
	}
	return b
}

func jobByName0(js []JobSpec, name string) *JobSpec {
	for i := range js {
		if js[i].Name == name {
			return &js[i]
		}
	}
	return nil
}

func keys2(m map[string]bool) []string {
	out := []string{}
	for k := range m {
		out = append(out, k)
	}
	sort.Strings(out)
	return out
}

func keys(m map[string]bool) []string {
	out := []string{}
	for k := range m {
		out = append(out, k)
	}
	sort.Strings(out)
	return out
}

func sanitize(s string) string {
	var sb strings.Builder
	for _, r := range s {
		if (r >= 'a' && r <= 'z') || (r >= 'A' && r <= 'Z') || (r >= '0' && r <= '9') || r == '-' || r == '_' || r == '=' {
			sb.WriteRune(r)
		} else {
			sb.WriteRune('_')
		}
	}
	r := sb.String()
	if len(r) > 120 {
		r = r[:120]
	}
	return r
}

// rewriteForNative renames statically-called stubbed functions in the overlay
// copy of the package source and appends forwarders to the harness stubs, so
// that the native replay binds the same stubs as the engine.
// Rewrite entries: "file.go:RecvType.Method=stubFunc" or "file.go:Func=stubFunc".
func rewriteForNative(js *JobSpec, ov map[string][]byte) error {
	for _, rw := range js.Rewrite {
		parts := strings.SplitN(rw, ":", 2)
		file := filepath.Join(repoDir, js.Pkg, parts[0])
		if strings.HasPrefix(parts[0], "/") {
			// "/dir/file.go:..." is relative to the repository root (another package)
			file = filepath.Join(repoDir, parts[0])
		}
		kv := strings.SplitN(parts[1], "=", 2)
		target, stub := kv[0], kv[1]
		hook := ""
		if strings.HasPrefix(stub, "@") {
			// forward through a hook variable declared in that package (cross-package stub)
			hook = stub[1:]
		}
		recv, name := "", target
		if i := strings.Index(target, "."); i >= 0 {
			recv, name = target[:i], target[i+1:]
		}
		src, ok := ov[file]
		if !ok {
			b, err := os.ReadFile(file)
			if err != nil {
				return err
			}
			src = b
		}
		fset := token.NewFileSet()
		f, err := parser.ParseFile(fset, file, src, parser.ParseComments)
		if err != nil {
			return err
		}
		found := false
		var fwd strings.Builder
		for _, d := range f.Decls {
			fd, ok := d.(*ast.FuncDecl)
			if !ok || fd.Name.Name != name {
				continue
			}
			r := ""
			if fd.Recv != nil && len(fd.Recv.List) == 1 {
				t := fd.Recv.List[0].Type
				if s, ok := t.(*ast.StarExpr); ok {
					t = s.X
				}
				if id, ok := t.(*ast.Ident); ok {
					r = id.Name
				}
			}
			if r != recv {
				continue
			}
			found = true
			// build forwarder
			var ps, as []string
			if fd.Recv != nil {
				rn := "zzrecv"
				if len(fd.Recv.List[0].Names) > 0 {
					rn = fd.Recv.List[0].Names[0].Name
				} else {
					fd.Recv.List[0].Names = []*ast.Ident{ast.NewIdent(rn)}
				}
				as = append(as, rn)
			}
			k := 0
			for _, p := range fd.Type.Params.List {
				if len(p.Names) == 0 {
					p.Names = []*ast.Ident{ast.NewIdent(fmt.Sprintf("zzp%d", k))}
					k++
				}
				for _, n := range p.Names {
					if n.Name == "_" {
						n.Name = fmt.Sprintf("zzp%d", k)
						k++
					}
					as = append(as, n.Name)
				}
			}
			_ = ps
			var sig strings.Builder
			cp := *fd
			cp.Body = nil
			cp.Doc = nil
			printer.Fprint(&sig, fset, &cp)
			ret := ""
			if fd.Type.Results != nil && len(fd.Type.Results.List) > 0 {
				ret = "return "
			}
			if hook != "" {
				orig := "zzOrig_" + name
				call := orig + "(" + strings.Join(as, ", ") + ")"
				if fd.Recv != nil {
					call = as[0] + "." + orig + "(" + strings.Join(as[1:], ", ") + ")"
				}
				tail := "\n\t\treturn"
				if ret != "" {
					tail = ""
				}
				fmt.Fprintf(&fwd, "\n%s {\n\tif %s != nil {\n\t\t%s%s(%s)%s\n\t}\n\t%s%s\n}\n", sig.String(), hook, ret, hook, strings.Join(as, ", "), tail, ret, call)
			} else {
				fmt.Fprintf(&fwd, "\n%s {\n\t%s%s(%s)\n}\n", sig.String(), ret, stub, strings.Join(as, ", "))
			}
			fd.Name.Name = "zzOrig_" + name
		}
		if !found {
			return fmt.Errorf("native rewrite: %s not found in %s", target, file)
		}
		var out strings.Builder
		printer.Fprint(&out, fset, f)
		out.WriteString(fwd.String())
		ov[file] = []byte(out.String())
	}
	return nil
}
