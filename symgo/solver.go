package main

// Solver back ends: long-lived "z3 -in" style processes fed standalone
// scripts separated by (reset).

import (
	"bufio"
	"fmt"
	"io"
	"math/big"
	"os/exec"
	"strings"
	"sync"
	"time"
)

type SolverSpec struct {
	Name string
	Cmd  []string
}

var solverSpecs = map[string]SolverSpec{
	"z3":      {"z3", []string{"z3", "-in"}},
	"z3-new":  {"z3-new", []string{"z3-new", "-in"}},
	"cvc5":    {"cvc5", []string{"cvc5", "--incremental", "--produce-models", "--lang=smt2"}},
	"cvc5int": {"cvc5int", []string{"cvc5", "--incremental", "--produce-models", "--lang=smt2", "--solve-bv-as-int=sum"}},
}

type SolverProc struct {
	spec SolverSpec
	cmd  *exec.Cmd
	in   io.WriteCloser
	out  *bufio.Reader
	n    int
}

func startSolver(spec SolverSpec) (*SolverProc, error) {
	cmd := exec.Command(spec.Cmd[0], spec.Cmd[1:]...)
	in, err := cmd.StdinPipe()
	if err != nil {
		return nil, err
	}
	outp, err := cmd.StdoutPipe()
	if err != nil {
		return nil, err
	}
	cmd.Stderr = cmd.Stdout
	if err := cmd.Start(); err != nil {
		return nil, err
	}
	return &SolverProc{spec: spec, cmd: cmd, in: in, out: bufio.NewReaderSize(outp, 1<<20)}, nil
}

func (p *SolverProc) kill() {
	if p.cmd != nil && p.cmd.Process != nil {
		p.cmd.Process.Kill()
		p.cmd.Wait()
	}
}

type SolveResult struct {
	Status string // sat | unsat | unknown | error | timeout
	Model  map[string]string
	Raw    string
	Secs   float64
	Solver string
}

// solve runs one standalone script. timeout in seconds.
func (p *SolverProc) solve(script string, vars []string, wantModel bool, timeout int) SolveResult {
	start := time.Now()
	var sb strings.Builder
	sb.WriteString("(reset)\n")
	if strings.HasPrefix(p.spec.Name, "z3") {
		fmt.Fprintf(&sb, "(set-option :timeout %d)\n", timeout*1000)
	} else {
		fmt.Fprintf(&sb, "(set-option :tlimit-per %d)\n", timeout*1000)
		sb.WriteString("(set-logic ALL)\n")
	}
	sb.WriteString(script)
	sb.WriteString("(check-sat)\n(echo \"@@CHECKED\")\n")
	type lineRes struct {
		lines []string
		err   error
	}
	readUntil := func(marker string, d time.Duration) ([]string, bool) {
		ch := make(chan lineRes, 1)
		go func() {
			var ls []string
			for {
				l, err := p.out.ReadString('\n')
				if err != nil {
					ch <- lineRes{ls, err}
					return
				}
				l = strings.TrimSpace(l)
				if strings.Trim(l, "\"") == marker {
					ch <- lineRes{ls, nil}
					return
				}
				ls = append(ls, l)
			}
		}()
		select {
		case r := <-ch:
			return r.lines, r.err == nil
		case <-time.After(d):
			return nil, false
		}
	}
	if _, err := io.WriteString(p.in, sb.String()); err != nil {
		return SolveResult{Status: "error", Raw: err.Error(), Solver: p.spec.Name}
	}
	lines, ok := readUntil("@@CHECKED", time.Duration(timeout+10)*time.Second)
	res := SolveResult{Solver: p.spec.Name}
	if !ok {
		p.kill()
		np, err := startSolver(p.spec)
		if err == nil {
			*p = *np
		}
		res.Status = "timeout"
		res.Secs = time.Since(start).Seconds()
		return res
	}
	res.Raw = strings.Join(lines, "\n")
	status := ""
	for _, l := range lines {
		if strings.Contains(l, "(error") {
			status = "error"
			break
		}
		if l == "sat" || l == "unsat" || l == "unknown" {
			status = l
		}
	}
	if status == "" {
		status = "error"
	}
	res.Status = status
	if status == "sat" && wantModel && len(vars) > 0 {
		var q strings.Builder
		q.WriteString("(get-value (")
		for _, v := range vars {
			q.WriteString(smtName(v) + " ")
		}
		q.WriteString("))\n(echo \"@@MODEL\")\n")
		io.WriteString(p.in, q.String())
		ml, ok := readUntil("@@MODEL", 30*time.Second)
		if ok {
			res.Model = parseModel(strings.Join(ml, " "))
		}
	}
	res.Secs = time.Since(start).Seconds()
	return res
}

// parseModel parses ((|name| value) ...) into name -> decimal/unparsed string
func parseModel(s string) map[string]string {
	m := map[string]string{}
	i := 0
	for i < len(s) {
		j := strings.Index(s[i:], "(|")
		if j < 0 {
			break
		}
		i += j + 2
		k := strings.Index(s[i:], "|")
		if k < 0 {
			break
		}
		name := s[i : i+k]
		i += k + 1
		// value: up to matching paren
		for i < len(s) && s[i] == ' ' {
			i++
		}
		startV := i
		depth := 0
		for i < len(s) {
			if s[i] == '(' {
				depth++
			} else if s[i] == ')' {
				if depth == 0 {
					break
				}
				depth--
			}
			i++
		}
		m[name] = strings.TrimSpace(s[startV:i])
	}
	return m
}

// modelInt converts an SMT bit-vector/bool literal to a signed 64-bit value.
func modelInt(v string) (int64, bool) {
	switch {
	case v == "true":
		return 1, true
	case v == "false":
		return 0, true
	case strings.HasPrefix(v, "#x"):
		b, ok := new(big.Int).SetString(v[2:], 16)
		if !ok {
			return 0, false
		}
		return int64(b.Uint64()), true
	case strings.HasPrefix(v, "#b"):
		b, ok := new(big.Int).SetString(v[2:], 2)
		if !ok {
			return 0, false
		}
		return int64(b.Uint64()), true
	case strings.HasPrefix(v, "(_ bv"):
		f := strings.Fields(v[5:])
		b, ok := new(big.Int).SetString(f[0], 10)
		if !ok {
			return 0, false
		}
		return int64(b.Uint64()), true
	}
	return 0, false
}

type SolverPool struct {
	spec  SolverSpec
	procs chan *SolverProc
	mu    sync.Mutex
	total float64
	count int
}

// NewPool creates a pool of up to n lazily started solver processes.
func NewPool(name string, n int) (*SolverPool, error) {
	spec, ok := solverSpecs[name]
	if !ok {
		return nil, fmt.Errorf("unknown solver %s", name)
	}
	p := &SolverPool{spec: spec, procs: make(chan *SolverProc, n)}
	for i := 0; i < n; i++ {
		p.procs <- nil
	}
	return p, nil
}

func (p *SolverPool) Solve(script string, vars []string, wantModel bool, timeout int) SolveResult {
	sp := <-p.procs
	if sp == nil {
		var err error
		sp, err = startSolver(p.spec)
		if err != nil {
			p.procs <- nil
			return SolveResult{Status: "error", Raw: err.Error(), Solver: p.spec.Name}
		}
	}
	r := sp.solve(script, vars, wantModel, timeout)
	p.procs <- sp
	p.mu.Lock()
	p.total += r.Secs
	p.count++
	p.mu.Unlock()
	return r
}

func (p *SolverPool) Close() {
	close(p.procs)
	for sp := range p.procs {
		if sp == nil {
			continue
		}
		sp.in.Close()
		sp.kill()
	}
}
