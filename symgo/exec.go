package main

// Symbolic executor for go/ssa: single merged state, symbolic branches are
// executed on both arms and merged at the immediate post-dominator.

import (
	"fmt"
	"go/constant"
	"go/token"
	"go/types"
	"math/big"
	"strings"
	"time"

	"golang.org/x/tools/go/ssa"
)

type Query struct {
	Kind    string // assert | panic | reach | unwind
	Label   string
	Formula *Term // satisfiable formula = violation (assert/panic/unwind) or witness (reach)
	Pos     string
	Fn      string
}

type Engine struct {
	prog      *ssa.Program
	pkg       *ssa.Package
	queries   []*Query
	stubs     map[string]string // callee full name -> harness function name (in pkg)
	noops     map[string]bool   // callee full names with empty bodies
	globals   map[*ssa.Global]*Obj
	funcsSeen map[*ssa.Function]int // functions executed -> call count
	pdom      map[*ssa.Function]map[*ssa.BasicBlock]*ssa.BasicBlock
	unwind    int
	feas      func(*Term) string // synchronous feasibility oracle: "sat"|"unsat"|"unknown"
	feasCalls int
	nondets   map[string]Sort
	ndOrder   []string
	forks     int
	merges    int
	instrs    int
	depth     int
	trace     bool
	fpMode    string
	initDone  map[*ssa.Package]bool
	initPkgs  map[string]bool
	deadline  time.Time
}

type Frame struct {
	fn     *ssa.Function
	visits map[*ssa.BasicBlock]int
	defers []*deferred
	caller *Frame
}

type deferred struct {
	call *ssa.CallCommon
	fv   *FuncV
	recv Value
	args []Value
}

type Env map[ssa.Value]Value

func cloneEnv(e Env) Env {
	n := make(Env, len(e)+8)
	for k, v := range e {
		n[k] = v
	}
	return n
}

type Outcome struct {
	st   *State
	phis []Value
	env  Env // the arm's environment on reaching the join block
}

// PoisonV stands for a loop-carried value whose two versions could not be merged;
// it is harmless unless used.
type PoisonV struct{ msg string }

// mergeEnv brings values that an arm re-defined (a block executed again through a
// loop back edge inside the arm, e.g. the header phi of `for ; err == nil && ...`)
// back into the parent environment: after the join such a value is the one of the
// last execution on the path taken, not the one the parent saw before the fork.
func mergeEnv(env Env, c *Term, eT, eF Env) {
	for k, pv := range env {
		var nv Value
		switch {
		case eT != nil && eF != nil:
			vT, okT := eT[k]
			vF, okF := eF[k]
			if !okT || !okF {
				continue
			}
			if vT == vF {
				nv = vT
			} else {
				nv = safeIteV(c, vT, vF)
			}
		case eT != nil:
			nv = eT[k]
		case eF != nil:
			nv = eF[k]
		}
		if nv != nil && nv != pv {
			env[k] = nv
		}
	}
}

func safeIteV(c *Term, a, b Value) (r Value) {
	defer func() {
		if x := recover(); x != nil {
			r = &PoisonV{msg: fmt.Sprint(x)}
		}
	}()
	return IteV(c, a, b)
}

type RetOutcome struct {
	st  *State
	val Value
}

func NewEngine(prog *ssa.Program, pkg *ssa.Package) *Engine {
	return &Engine{prog: prog, pkg: pkg, stubs: map[string]string{}, noops: map[string]bool{},
		globals: map[*ssa.Global]*Obj{}, funcsSeen: map[*ssa.Function]int{},
		pdom: map[*ssa.Function]map[*ssa.BasicBlock]*ssa.BasicBlock{}, unwind: 64,
		nondets: map[string]Sort{}, initDone: map[*ssa.Package]bool{}, initPkgs: map[string]bool{}}
}

func (e *Engine) addQuery(kind, label string, f *Term, instr ssa.Instruction) {
	if f.IsFalse() && kind != "reach" && kind != "assert" && kind != "lemma" {
		return
	}
	q := &Query{Kind: kind, Label: label, Formula: f}
	if instr != nil {
		q.Pos = e.prog.Fset.Position(instr.Pos()).String()
		if instr.Parent() != nil {
			q.Fn = instr.Parent().String()
		}
	}
	e.queries = append(e.queries, q)
}

// ---------- post-dominators

func (e *Engine) ipdoms(fn *ssa.Function) map[*ssa.BasicBlock]*ssa.BasicBlock {
	if m, ok := e.pdom[fn]; ok {
		return m
	}
	n := len(fn.Blocks)
	// virtual exit = index n
	succ := make([][]int, n+1)
	for i, b := range fn.Blocks {
		if len(b.Succs) == 0 {
			succ[i] = []int{n}
		}
		for _, s := range b.Succs {
			succ[i] = append(succ[i], s.Index)
		}
	}
	// iterative set-based post-dominator computation (functions are small)
	full := new(big.Int).Sub(new(big.Int).Lsh(big.NewInt(1), uint(n+1)), big.NewInt(1))
	pd := make([]*big.Int, n+1)
	for i := range pd {
		pd[i] = new(big.Int).Set(full)
	}
	pd[n] = new(big.Int).SetBit(new(big.Int), n, 1)
	changed := true
	for changed {
		changed = false
		for i := n - 1; i >= 0; i-- {
			var acc *big.Int
			for _, s := range succ[i] {
				if acc == nil {
					acc = new(big.Int).Set(pd[s])
				} else {
					acc.And(acc, pd[s])
				}
			}
			if acc == nil {
				acc = new(big.Int)
			}
			acc.SetBit(acc, i, 1)
			if acc.Cmp(pd[i]) != 0 {
				pd[i] = acc
				changed = true
			}
		}
	}
	res := map[*ssa.BasicBlock]*ssa.BasicBlock{}
	for i, b := range fn.Blocks {
		// strict post-dominators of i; the immediate one is the strict pdom
		// that is post-dominated by all other strict pdoms (largest pd set)
		best, bestCnt := -1, -1
		for j := 0; j <= n; j++ {
			if j == i || pd[i].Bit(j) == 0 {
				continue
			}
			cnt := 0
			for k := 0; k <= n; k++ {
				if pd[j].Bit(k) == 1 {
					cnt++
				}
			}
			if cnt > bestCnt {
				best, bestCnt = j, cnt
			}
		}
		if best >= 0 && best < n {
			res[b] = fn.Blocks[best]
		} else {
			res[b] = nil
		}
	}
	e.pdom[fn] = res
	return res
}

// ---------- operand evaluation

func (e *Engine) constValue(c *ssa.Const) Value {
	t := c.Type()
	if c.Value == nil {
		return zeroValue(t)
	}
	if isTimeType(t) {
		return zeroValue(t)
	}
	switch u := t.Underlying().(type) {
	case *types.Basic:
		switch {
		case u.Info()&types.IsBoolean != 0:
			return BoolConst(constant.BoolVal(c.Value))
		case u.Info()&types.IsString != 0:
			return ConcStr(constant.StringVal(c.Value))
		case u.Info()&types.IsInteger != 0:
			w := bvWidth(u)
			bi, ok := new(big.Int).SetString(constant.ToInt(c.Value).ExactString(), 10)
			if !ok {
				panic("bad int const " + c.Value.ExactString())
			}
			return BVConstBig(bi, w)
		case u.Info()&types.IsFloat != 0:
			f, _ := constant.Float64Val(constant.ToFloat(c.Value))
			s, _ := sortOf(t)
			return FConst(f, s)
		}
	}
	panic(unsupported("constant %v of type %v", c, t))
}

func (e *Engine) globalObj(st *State, g *ssa.Global) *Obj {
	if o, ok := e.globals[g]; ok {
		if _, in := st.heap[o.id]; !in {
			// global allocated on another branch: materialise zero here too
			st.heap[o.id] = &ObjData{cells: flatten(o.elem, zeroValue(o.elem), nil), owner: st}
		}
		return o
	}
	elem := g.Type().(*types.Pointer).Elem()
	o := st.NewObj("global:"+g.Name(), elem, 1)
	o.glob = true
	e.globals[g] = o
	return o
}

func (e *Engine) eval(st *State, env Env, v ssa.Value) Value {
	switch x := v.(type) {
	case *ssa.Const:
		return e.constValue(x)
	case *ssa.Global:
		return PtrTo(e.globalObj(st, x), 0)
	case *ssa.Function:
		return &FuncV{fn: x}
	case *ssa.Builtin:
		return &FuncV{builtin: x.Name()}
	}
	r, ok := env[v]
	if !ok {
		panic(fmt.Sprintf("engine: no value for %s (%T) in %s", v.Name(), v, v.Parent()))
	}
	if p, ok := r.(*PoisonV); ok {
		panic(unsupported("use of a loop-carried value whose versions cannot be merged (%s)", p.msg))
	}
	return r
}

// ---------- memory access

func (e *Engine) checkNonNil(st *State, p *PtrV, instr ssa.Instruction) {
	isnil := p.IsNil()
	if isnil.IsFalse() {
		return
	}
	e.addQuery("panic", "nil dereference", And(st.g, isnil), instr)
	st.g = And(st.g, Not(isnil))
	// drop nil alternatives
	var alts []PtrAlt
	for _, a := range p.alts {
		if a.obj != nil {
			alts = append(alts, a)
		}
	}
	p.alts = alts
}

func (e *Engine) load(st *State, p *PtrV, t types.Type, instr ssa.Instruction) Value {
	p = &PtrV{alts: append([]PtrAlt{}, p.alts...)}
	e.checkNonNil(st, p, instr)
	if len(p.alts) == 0 {
		// unreachable (always nil): produce zero
		st.g = TFalse
		return zeroValue(t)
	}
	n := cells(t)
	var res Value
	for i := len(p.alts) - 1; i >= 0; i-- {
		a := p.alts[i]
		cs := make([]Value, n)
		for k := 0; k < n; k++ {
			cs[k] = st.read(a.obj, a.off+k)
		}
		var v Value
		if n == 0 {
			v = zeroValue(t)
		} else {
			v, _ = unflatten(t, cs)
		}
		if res == nil {
			res = v
		} else {
			res = IteV(a.g, v, res)
		}
	}
	return res
}

func (e *Engine) store(st *State, p *PtrV, t types.Type, v Value, instr ssa.Instruction) {
	p = &PtrV{alts: append([]PtrAlt{}, p.alts...)}
	e.checkNonNil(st, p, instr)
	n := cells(t)
	if n == 0 {
		return
	}
	cs := flatten(t, v, nil)
	if len(cs) != n {
		panic(fmt.Sprintf("engine: store flatten mismatch %d vs %d for %v", len(cs), n, t))
	}
	single := len(p.alts) == 1
	for _, a := range p.alts {
		for k := 0; k < n; k++ {
			if single {
				st.write(a.obj, a.off+k, cs[k])
			} else {
				old := st.read(a.obj, a.off+k)
				st.write(a.obj, a.off+k, IteV(a.g, cs[k], old))
			}
		}
	}
}

// elemPtr computes &backing[off+idx] as a guarded pointer set.
func (e *Engine) elemPtr(alts []ObjAlt, idx *Term, esz int) *PtrV {
	r := &PtrV{}
	for _, a := range alts {
		if idx.IsConst() {
			k := int(idx.Int64())
			r.addAlt(a.g, a.obj, a.base+k*esz)
			continue
		}
		for k := 0; k < a.n; k++ {
			r.addAlt(And(a.g, Eq(idx, BVConst(int64(k), 64))), a.obj, a.base+k*esz)
		}
	}
	return r
}

// ---------- function execution

func (e *Engine) callFunction(st *State, fn *ssa.Function, args []Value, bindings []Value, caller *Frame, site ssa.Instruction) (*State, Value) {
	name := fn.String()
	if fn.Name() == "init" && fn.Pkg != nil && fn.Signature.Recv() == nil && fn.Parent() == nil {
		// package initialisers run only for packages listed by the job
		if !e.initPkgs[fn.Pkg.Pkg.Path()] || e.initDone[fn.Pkg] {
			return st, nil
		}
		e.initDone[fn.Pkg] = true
	}
	if e.noops[name] {
		return st, zeroResults(fn.Signature)
	}
	if stub, ok := e.stubs[name]; ok {
		sf := e.pkg.Func(stub)
		if sf == nil {
			panic(unsupported("stub %s for %s not found in harness", stub, name))
		}
		fn = sf
		name = fn.String()
	}
	if r, ok, nst := e.intrinsic(st, fn, name, args, caller, site); ok {
		return nst, r
	}
	if fn.Blocks == nil {
		panic(unsupported("external function %s (no body)", name))
	}
	if !e.allowed(fn) {
		panic(unsupported("callee %s is neither allow-listed nor stubbed", name))
	}
	e.funcsSeen[fn]++
	e.depth++
	if e.depth > 200 {
		panic(unsupported("call depth > 200 at %s", name))
	}
	defer func() { e.depth-- }()
	fr := &Frame{fn: fn, visits: map[*ssa.BasicBlock]int{}, caller: caller}
	env := Env{}
	for i, p := range fn.Params {
		env[p] = args[i]
	}
	for i, fv := range fn.FreeVars {
		env[fv] = bindings[i]
	}
	if e.trace {
		fmt.Printf("%*scall %s\n", e.depth, "", name)
	}
	_, ret := e.execRegion(fr, st, env, fn.Blocks[0], nil, nil)
	if ret == nil {
		return nil, nil
	}
	return ret.st, ret.val
}

func zeroResults(sig *types.Signature) Value {
	switch sig.Results().Len() {
	case 0:
		return nil
	case 1:
		return zeroValue(sig.Results().At(0).Type())
	}
	return zeroValue(sig.Results())
}

var allowPkgs = map[string]bool{}

// dependency packages whose functions are executed from their SSA (DESIGN 2.5)
var defaultAllow = map[string]bool{
	"github.com/TheCacophonyProject/go-cptv/cptvframe": true,
	"github.com/juju/ratelimit":                        true,
	"errors":                                           true,
	"encoding/binary":                                  true,
	"time":                                             true,
}

func (e *Engine) allowed(fn *ssa.Function) bool {
	if fn.Pkg == nil {
		// synthetic wrappers (bound methods, thunks)
		return true
	}
	p := fn.Pkg.Pkg.Path()
	if fn.Name() == "init" && e.initPkgs[p] {
		return true
	}
	if allowPkgs[p] || defaultAllow[p] {
		return true
	}
	if strings.HasPrefix(p, "github.com/TheCacophonyProject/thermal-recorder") {
		return true
	}
	return false
}

func mergeRet(sel *Term, a, b *RetOutcome) *RetOutcome {
	if a == nil {
		return b
	}
	if b == nil {
		return a
	}
	var v Value
	if a.val != nil || b.val != nil {
		v = IteV(sel, a.val, b.val)
	}
	return &RetOutcome{st: MergeStates(sel, a.st, b.st), val: v}
}

func (e *Engine) execRegion(fr *Frame, st *State, env Env, b *ssa.BasicBlock, pred *ssa.BasicBlock, stop *ssa.BasicBlock) (*Outcome, *RetOutcome) {
	var retAcc *RetOutcome
	addRet := func(r *RetOutcome) {
		if r == nil {
			return
		}
		if retAcc == nil {
			retAcc = r
		} else {
			retAcc = mergeRet(retAcc.st.g, retAcc, r)
		}
	}
	phisDone := false
	for {
		if st == nil || st.g.IsFalse() {
			return nil, retAcc
		}
		if b == stop {
			if phisDone {
				panic("engine: phisDone at stop")
			}
			return &Outcome{st: st, phis: e.phiVals(st, env, b, pred), env: env}, retAcc
		}
		// phis
		if !phisDone {
			vals := e.phiVals(st, env, b, pred)
			k := 0
			for _, in := range b.Instrs {
				if p, ok := in.(*ssa.Phi); ok {
					env[p] = vals[k]
					k++
				} else {
					break
				}
			}
		}
		phisDone = false
		var term ssa.Instruction
		for _, in := range b.Instrs {
			if _, ok := in.(*ssa.Phi); ok {
				continue
			}
			switch in.(type) {
			case *ssa.If, *ssa.Jump, *ssa.Return, *ssa.Panic:
				term = in
			default:
				e.instrs++
				if e.instrs&1023 == 0 && !e.deadline.IsZero() && time.Now().After(e.deadline) {
					panic(unsupported("symbolic execution budget exceeded (%d instructions)", e.instrs))
				}
				st = e.step(fr, st, env, in)
				if st == nil || st.g.IsFalse() {
					return nil, retAcc
				}
			}
		}
		switch t := term.(type) {
		case *ssa.Jump:
			pred, b = b, b.Succs[0]
		case *ssa.Return:
			var v Value
			switch len(t.Results) {
			case 0:
			case 1:
				v = e.eval(st, env, t.Results[0])
			default:
				tv := &TupleV{}
				for _, r := range t.Results {
					tv.vs = append(tv.vs, e.eval(st, env, r))
				}
				v = tv
			}
			addRet(&RetOutcome{st: st, val: v})
			return nil, retAcc
		case *ssa.Panic:
			e.addQuery("panic", "explicit panic", st.g, t)
			return nil, retAcc
		case *ssa.If:
			c := e.eval(st, env, t.Cond).(*Term)
			if c.IsConst() {
				if c.b {
					pred, b = b, b.Succs[0]
				} else {
					pred, b = b, b.Succs[1]
				}
				continue
			}
			fr.visits[b]++
			gT, gF := And(st.g, c), And(st.g, Not(c))
			if e.trace {
				fmt.Printf("%*sif@%s visits=%d\n", e.depth, "", e.prog.Fset.Position(t.Pos()), fr.visits[b])
			}
			if fr.visits[b] > 1 && e.feas != nil {
				// loop re-entry on a symbolic condition: prune infeasible arms
				if !gT.IsFalse() {
					e.feasCalls++
					r := e.feas(gT)
					if e.trace {
						fmt.Printf("%*sfeas T: %s\n", e.depth, "", r)
					}
					if r == "unsat" {
						gT = TFalse
					}
				}
				if !gF.IsFalse() {
					e.feasCalls++
					r := e.feas(gF)
					if e.trace {
						fmt.Printf("%*sfeas F: %s\n", e.depth, "", r)
					}
					if r == "unsat" {
						gF = TFalse
					}
				}
			}
			if fr.visits[b] > e.unwind {
				e.addQuery("unwind", fmt.Sprintf("unwinding bound %d exceeded", e.unwind), st.g, t)
				fr.visits[b]--
				return nil, retAcc
			}
			if gT.IsFalse() && gF.IsFalse() {
				// the state itself is infeasible
				fr.visits[b]--
				return nil, retAcc
			}
			if gT.IsFalse() {
				fr.visits[b]--
				st.g = gF
				pred, b = b, b.Succs[1]
				continue
			}
			if gF.IsFalse() {
				fr.visits[b]--
				st.g = gT
				pred, b = b, b.Succs[0]
				continue
			}
			J := e.ipdoms(fr.fn)[b]
			e.forks++
			stT, stF := st.Fork(gT), st.Fork(gF)
			oT, rT := e.execRegion(fr, stT, cloneEnv(env), b.Succs[0], b, J)
			oF, rF := e.execRegion(fr, stF, cloneEnv(env), b.Succs[1], b, J)
			fr.visits[b]--
			addRet(mergeRet(c, rT, rF))
			e.merges++
			var o *Outcome
			switch {
			case oT == nil:
				o = oF
			case oF == nil:
				o = oT
			default:
				o = &Outcome{st: MergeStates(c, oT.st, oF.st), phis: make([]Value, len(oT.phis))}
				for i := range oT.phis {
					o.phis[i] = IteV(c, oT.phis[i], oF.phis[i])
				}
			}
			if o == nil {
				return nil, retAcc
			}
			{
				var eT, eF Env
				if oT != nil {
					eT = oT.env
				}
				if oF != nil {
					eF = oF.env
				}
				mergeEnv(env, c, eT, eF)
				o = &Outcome{st: o.st, phis: o.phis, env: env}
			}
			if J == stop {
				return o, retAcc
			}
			st = o.st
			k := 0
			for _, in := range J.Instrs {
				if p, ok := in.(*ssa.Phi); ok {
					env[p] = o.phis[k]
					k++
				} else {
					break
				}
			}
			b, pred, phisDone = J, nil, true
		default:
			panic(fmt.Sprintf("engine: block %d of %s has no terminator", b.Index, fr.fn))
		}
	}
}

func (e *Engine) phiVals(st *State, env Env, b *ssa.BasicBlock, pred *ssa.BasicBlock) []Value {
	var vals []Value
	idx := -1
	for _, in := range b.Instrs {
		p, ok := in.(*ssa.Phi)
		if !ok {
			break
		}
		if idx < 0 {
			for i, pb := range b.Preds {
				if pb == pred {
					idx = i
					break
				}
			}
			if idx < 0 {
				panic("engine: phi with unknown predecessor")
			}
		}
		vals = append(vals, e.eval(st, env, p.Edges[idx]))
	}
	return vals
}

// ---------- instructions

func (e *Engine) step(fr *Frame, st *State, env Env, in ssa.Instruction) *State {
	switch x := in.(type) {
	case *ssa.DebugRef:
		return st
	case *ssa.Alloc:
		o := st.NewObj(x.Comment, x.Type().(*types.Pointer).Elem(), 1)
		env[x] = PtrTo(o, 0)
	case *ssa.BinOp:
		env[x] = e.binop(st, x.Op, x.X.Type(), e.eval(st, env, x.X), e.eval(st, env, x.Y), x.Y.Type(), x)
	case *ssa.UnOp:
		env[x] = e.unop(st, env, x)
	case *ssa.Store:
		p := e.eval(st, env, x.Addr).(*PtrV)
		e.store(st, p, x.Val.Type(), e.eval(st, env, x.Val), x)
	case *ssa.FieldAddr:
		p := e.eval(st, env, x.X).(*PtrV)
		p = &PtrV{alts: append([]PtrAlt{}, p.alts...)}
		e.checkNonNil(st, p, x)
		stt := x.X.Type().Underlying().(*types.Pointer).Elem().Underlying().(*types.Struct)
		off := fieldOffset(stt, x.Field)
		r := &PtrV{}
		for _, a := range p.alts {
			r.alts = append(r.alts, PtrAlt{a.g, a.obj, a.off + off})
		}
		env[x] = r
	case *ssa.Field:
		sv := e.eval(st, env, x.X).(*StructV)
		env[x] = sv.fields[x.Field]
	case *ssa.IndexAddr:
		env[x] = e.indexAddr(st, env, x)
	case *ssa.Index:
		env[x] = e.index(st, env, x)
	case *ssa.Slice:
		env[x] = e.slice(st, env, x)
	case *ssa.MakeSlice:
		ln := e.eval(st, env, x.Len).(*Term)
		cp := e.eval(st, env, x.Cap).(*Term)
		if !cp.IsConst() || !ln.IsConst() {
			panic(unsupported("make([]T, n) with symbolic size at %s", e.prog.Fset.Position(x.Pos())))
		}
		n := int(cp.Int64())
		elem := x.Type().Underlying().(*types.Slice).Elem()
		o := st.NewObj("makeslice", elem, n)
		env[x] = &SliceV{alts: []ObjAlt{{g: TTrue, obj: o, base: 0, n: n}}, off: BVConst(0, 64), len: SExt(ln, 64), cap: SExt(cp, 64)}
	case *ssa.MakeInterface:
		env[x] = &IfaceV{alts: []IfaceAlt{{g: TTrue, typ: x.X.Type(), v: e.eval(st, env, x.X)}}}
	case *ssa.ChangeInterface:
		env[x] = e.eval(st, env, x.X)
	case *ssa.ChangeType:
		env[x] = e.eval(st, env, x.X)
	case *ssa.Convert:
		env[x] = e.convert(st, e.eval(st, env, x.X), x.X.Type(), x.Type(), x)
	case *ssa.TypeAssert:
		env[x] = e.typeAssert(st, e.eval(st, env, x.X).(*IfaceV), x)
	case *ssa.Extract:
		env[x] = e.eval(st, env, x.Tuple).(*TupleV).vs[x.Index]
	case *ssa.MakeClosure:
		fv := &FuncV{fn: x.Fn.(*ssa.Function)}
		for _, b := range x.Bindings {
			fv.bindings = append(fv.bindings, e.eval(st, env, b))
		}
		env[x] = fv
	case *ssa.MakeMap:
		env[x] = &MapV{obj: e.newMapObj(st)}
	case *ssa.MapUpdate:
		m := e.eval(st, env, x.Map).(*MapV)
		if m.obj == nil {
			e.addQuery("panic", "assignment to entry in nil map", st.g, x)
			return nil
		}
		old := st.read(m.obj, 0).(*MapContent)
		nc := &MapContent{ents: map[string]mapEnt{}}
		nc.keys = append(nc.keys, old.keys...)
		for kk, vv := range old.ents {
			nc.ents[kk] = vv
		}
		nv := e.eval(st, env, x.Value)
		for _, ka := range e.mapKeys(e.eval(st, env, x.Key)) {
			if en, ok := nc.ents[ka.s]; ok {
				nc.ents[ka.s] = mapEnt{Or(ka.g, en.present), IteV(ka.g, nv, en.v)}
			} else {
				nc.keys = append(nc.keys, ka.s)
				nc.ents[ka.s] = mapEnt{ka.g, nv}
			}
		}
		st.write(m.obj, 0, nc)
	case *ssa.Lookup:
		env[x] = e.lookup(st, env, x)
	case *ssa.Call:
		nst, r := e.call(fr, st, env, &x.Call, x)
		if nst == nil {
			return nil
		}
		st = nst
		if r != nil {
			env[x] = r
		} else if x.Type() != nil {
			if tt, ok := x.Type().(*types.Tuple); !ok || tt.Len() > 0 {
				env[x] = zeroValue(x.Type())
			}
		}
	case *ssa.Defer:
		d := &deferred{call: &x.Call}
		if x.Call.IsInvoke() {
			panic(unsupported("defer of interface method"))
		}
		d.fv = e.calleeValue(st, env, &x.Call)
		for _, a := range x.Call.Args {
			d.args = append(d.args, e.eval(st, env, a))
		}
		fr.defers = append(fr.defers, d)
	case *ssa.RunDefers:
		// run a copy so that several return sites each run all defers
		ds := fr.defers
		for i := len(ds) - 1; i >= 0; i-- {
			d := ds[i]
			nst, _ := e.callValue(st, d.fv, d.args, fr, x)
			if nst == nil {
				return nil
			}
			st = nst
		}
	case *ssa.Range:
		m, ok := e.eval(st, env, x.X).(*MapV)
		if !ok {
			panic(unsupported("range over a string at %s", e.prog.Fset.Position(in.Pos())))
		}
		it := &IterV{m: m}
		if m.obj != nil {
			it.keys = append(it.keys, st.read(m.obj, 0).(*MapContent).keys...)
		}
		objCounter++
		it.pos = &Obj{id: objCounter, label: "mapiter", n: 1, esz: 1}
		st.heap[it.pos.id] = &ObjData{cells: []Value{BVConst(0, 64)}, owner: st}
		st.objs[it.pos.id] = it.pos
		env[x] = it
	case *ssa.Next:
		// the next key (in snapshot order: one arbitrary but fixed iteration order) that is
		// still present in the map now; entries added during the iteration are not visited
		it := e.eval(st, env, x.Iter).(*IterV)
		mt := x.Iter.(*ssa.Range).X.Type().Underlying().(*types.Map)
		pos := st.read(it.pos, 0).(*Term)
		okT, newPos := TFalse, BVConst(int64(len(it.keys)), 64)
		var kv Value = zeroValue(mt.Key())
		var vv Value = zeroValue(mt.Elem())
		if it.m.obj != nil {
			mc := st.read(it.m.obj, 0).(*MapContent)
			for j := len(it.keys) - 1; j >= 0; j-- {
				en, has := mc.ents[it.keys[j]]
				if !has {
					continue
				}
				c := And(SLe(pos, BVConst(int64(j), 64)), en.present)
				okT = Or(c, okT)
				newPos = Ite(c, BVConst(int64(j+1), 64), newPos)
				kv = IteV(c, &StrV{id: internStr(it.keys[j])}, kv)
				vv = IteV(c, en.v, vv)
			}
		}
		st.write(it.pos, 0, newPos)
		env[x] = &TupleV{vs: []Value{okT, kv, vv}}
	case *ssa.SliceToArrayPointer, *ssa.Select, *ssa.Send, *ssa.Go, *ssa.MakeChan:
		panic(unsupported("instruction %T at %s", in, e.prog.Fset.Position(in.Pos())))
	default:
		panic(unsupported("instruction %T at %s", in, e.prog.Fset.Position(in.Pos())))
	}
	return st
}

func (e *Engine) newMapObj(st *State) *Obj {
	objCounter++
	o := &Obj{id: objCounter, label: "map", n: 1, esz: 1}
	st.heap[o.id] = &ObjData{cells: []Value{&MapContent{ents: map[string]mapEnt{}}}, owner: st}
	st.objs[o.id] = o
	return o
}

type keyAlt struct {
	g *Term
	s string
}

// mapKeys: the candidate concrete keys of a (possibly symbolic) string key, each
// with the condition under which the key equals it. A symbolic key must be an
// ite-chain over interned constants (pool strings, keys of the same map).
func (e *Engine) mapKeys(v Value) []keyAlt {
	s, ok := v.(*StrV)
	if !ok {
		panic(unsupported("map key must be a string"))
	}
	if s.conc {
		return []keyAlt{{TTrue, s.s}}
	}
	if s.id == nil {
		panic(unsupported("map key: byte-string"))
	}
	seen := map[int64]bool{}
	var ids []int64
	var walk func(t *Term)
	walk = func(t *Term) {
		if t.IsConst() {
			if id := t.Int64(); !seen[id] {
				seen[id] = true
				ids = append(ids, id)
			}
			return
		}
		if t.op == OIte {
			walk(t.args[1])
			walk(t.args[2])
			return
		}
		panic(unsupported("map key: symbolic string that is not drawn from a finite pool"))
	}
	walk(s.id)
	var out []keyAlt
	for _, id := range ids {
		if id < 0 || int(id) >= len(strByID) {
			panic(unsupported("map key: unknown string id"))
		}
		out = append(out, keyAlt{Eq(s.id, BVConst(id, 32)), strByID[id]})
	}
	return out
}

func (e *Engine) lookup(st *State, env Env, x *ssa.Lookup) Value {
	xv := e.eval(st, env, x.X)
	if m, ok := xv.(*MapV); ok {
		elemT := x.X.Type().Underlying().(*types.Map).Elem()
		v := zeroValue(elemT)
		found := TFalse
		if m.obj != nil {
			mc := st.read(m.obj, 0).(*MapContent)
			for _, ka := range e.mapKeys(e.eval(st, env, x.Index)) {
				if en, ok := mc.ents[ka.s]; ok {
					c := And(ka.g, en.present)
					found = Or(c, found)
					v = IteV(c, en.v, v)
				}
			}
		}
		if x.CommaOk {
			return &TupleV{vs: []Value{v, found}}
		}
		return v
	}
	panic(unsupported("string index lookup"))
}

func (e *Engine) indexAddr(st *State, env Env, x *ssa.IndexAddr) Value {
	idx := e.eval(st, env, x.Index).(*Term)
	idx = e.toInt64(idx, x.Index.Type())
	switch xt := x.X.Type().Underlying().(type) {
	case *types.Slice:
		sv := e.eval(st, env, x.X).(*SliceV)
		oob := Or(SLt(idx, BVConst(0, 64)), SLe(sv.len, idx))
		if !oob.IsFalse() {
			e.addQuery("panic", "index out of range", And(st.g, oob), x)
			st.g = And(st.g, Not(oob))
		}
		return e.elemPtr(sv.alts, Add(sv.off, idx), cells(xt.Elem()))
	case *types.Pointer:
		at := xt.Elem().Underlying().(*types.Array)
		p := e.eval(st, env, x.X).(*PtrV)
		p = &PtrV{alts: append([]PtrAlt{}, p.alts...)}
		e.checkNonNil(st, p, x)
		n := int(at.Len())
		oob := Or(SLt(idx, BVConst(0, 64)), SLe(BVConst(int64(n), 64), idx))
		if !oob.IsFalse() {
			e.addQuery("panic", "index out of range", And(st.g, oob), x)
			st.g = And(st.g, Not(oob))
		}
		var alts []ObjAlt
		for _, a := range p.alts {
			alts = append(alts, ObjAlt{g: a.g, obj: a.obj, base: a.off, n: n})
		}
		return e.elemPtr(alts, idx, cells(at.Elem()))
	}
	panic(unsupported("IndexAddr on %v", x.X.Type()))
}

func (e *Engine) index(st *State, env Env, x *ssa.Index) Value {
	idx := e.toInt64(e.eval(st, env, x.Index).(*Term), x.Index.Type())
	switch xv := e.eval(st, env, x.X).(type) {
	case *ArrayV:
		if !idx.IsConst() {
			var res Value
			for k := len(xv.elems) - 1; k >= 0; k-- {
				if res == nil {
					res = xv.elems[k]
				} else {
					res = IteV(Eq(idx, BVConst(int64(k), 64)), xv.elems[k], res)
				}
			}
			return res
		}
		return xv.elems[idx.Int64()]
	case *StrV:
		if xv.conc && idx.IsConst() {
			return BVConst(int64(xv.s[idx.Int64()]), 8)
		}
	}
	panic(unsupported("Index on %v", x.X.Type()))
}

func (e *Engine) toInt64(t *Term, typ types.Type) *Term {
	if t.sort.W == 64 {
		return t
	}
	if isSigned(typ) {
		return SExt(t, 64)
	}
	return ZExt(t, 64)
}

func (e *Engine) slice(st *State, env Env, x *ssa.Slice) Value {
	var lo, hi, mx *Term
	if x.Low != nil {
		lo = e.toInt64(e.eval(st, env, x.Low).(*Term), x.Low.Type())
	}
	if x.High != nil {
		hi = e.toInt64(e.eval(st, env, x.High).(*Term), x.High.Type())
	}
	if x.Max != nil {
		mx = e.toInt64(e.eval(st, env, x.Max).(*Term), x.Max.Type())
	}
	zero := BVConst(0, 64)
	switch xt := x.X.Type().Underlying().(type) {
	case *types.Slice:
		sv := e.eval(st, env, x.X).(*SliceV)
		if lo == nil {
			lo = zero
		}
		if hi == nil {
			hi = sv.len
		}
		capv := sv.cap
		if mx == nil {
			mx = capv
		}
		oob := Or(SLt(lo, zero), SLt(hi, lo), SLt(mx, hi), SLt(capv, mx))
		if !oob.IsFalse() {
			e.addQuery("panic", "slice bounds out of range", And(st.g, oob), x)
			st.g = And(st.g, Not(oob))
		}
		return &SliceV{alts: sv.alts, off: Add(sv.off, lo), len: Sub(hi, lo), cap: Sub(mx, lo)}
	case *types.Pointer:
		at := xt.Elem().Underlying().(*types.Array)
		p := e.eval(st, env, x.X).(*PtrV)
		p = &PtrV{alts: append([]PtrAlt{}, p.alts...)}
		e.checkNonNil(st, p, x)
		n := int(at.Len())
		nT := BVConst(int64(n), 64)
		if lo == nil {
			lo = zero
		}
		if hi == nil {
			hi = nT
		}
		if mx == nil {
			mx = nT
		}
		oob := Or(SLt(lo, zero), SLt(hi, lo), SLt(mx, hi), SLt(nT, mx))
		if !oob.IsFalse() {
			e.addQuery("panic", "slice bounds out of range", And(st.g, oob), x)
			st.g = And(st.g, Not(oob))
		}
		var alts []ObjAlt
		for _, a := range p.alts {
			alts = append(alts, ObjAlt{g: a.g, obj: a.obj, base: a.off, n: n})
		}
		return &SliceV{alts: alts, off: lo, len: Sub(hi, lo), cap: Sub(mx, lo)}
	case *types.Basic:
		s := e.eval(st, env, x.X).(*StrV)
		if s.conc && (lo == nil || lo.IsConst()) && (hi == nil || hi.IsConst()) {
			l, h := 0, len(s.s)
			if lo != nil {
				l = int(lo.Int64())
			}
			if hi != nil {
				h = int(hi.Int64())
			}
			return ConcStr(s.s[l:h])
		}
	}
	panic(unsupported("Slice on %v", x.X.Type()))
}

func (e *Engine) unop(st *State, env Env, x *ssa.UnOp) Value {
	v := e.eval(st, env, x.X)
	switch x.Op {
	case token.MUL:
		return e.load(st, v.(*PtrV), x.Type(), x)
	case token.NOT:
		return Not(v.(*Term))
	case token.SUB:
		t := v.(*Term)
		if isF(t.sort) {
			return FNeg(t)
		}
		return Neg(t)
	case token.XOR:
		return BNot(v.(*Term))
	}
	panic(unsupported("unop %v", x.Op))
}

func (e *Engine) binop(st *State, op token.Token, xt types.Type, a, b Value, yt types.Type, instr ssa.Instruction) Value {
	switch x := a.(type) {
	case *Term:
		y, ok := b.(*Term)
		if !ok {
			panic(fmt.Sprintf("binop kind mismatch %T %T", a, b))
		}
		return e.binopTerm(st, op, xt, x, y, yt, instr)
	case *PtrV:
		y := b.(*PtrV)
		switch op {
		case token.EQL:
			return PtrEq(x, y)
		case token.NEQ:
			return Not(PtrEq(x, y))
		}
	case *StrV:
		y := b.(*StrV)
		if x.conc && y.conc {
			switch op {
			case token.EQL:
				return BoolConst(x.s == y.s)
			case token.NEQ:
				return BoolConst(x.s != y.s)
			case token.LSS:
				return BoolConst(x.s < y.s)
			case token.LEQ:
				return BoolConst(x.s <= y.s)
			case token.GTR:
				return BoolConst(x.s > y.s)
			case token.GEQ:
				return BoolConst(x.s >= y.s)
			case token.ADD:
				return ConcStr(x.s + y.s)
			}
		}
		if x.bytes != nil || y.bytes != nil {
			eq := strBytesEq(x, y)
			switch op {
			case token.EQL:
				return eq
			case token.NEQ:
				return Not(eq)
			}
			panic(unsupported("operation %v on byte-string", op))
		}
		switch op {
		case token.EQL:
			return Eq(x.id, y.id)
		case token.NEQ:
			return Not(Eq(x.id, y.id))
		case token.ADD:
			return &StrV{id: UF("strcat", SBV(32), x.id, y.id)}
		}
	case *IfaceV:
		y := b.(*IfaceV)
		eq := e.ifaceEq(x, y)
		switch op {
		case token.EQL:
			return eq
		case token.NEQ:
			return Not(eq)
		}
	case *SliceV:
		// only comparison with nil
		y := b.(*SliceV)
		isNil := func(s *SliceV) *Term {
			var gs []*Term
			for _, al := range s.alts {
				gs = append(gs, al.g)
			}
			return Not(Or(gs...))
		}
		var r *Term
		if len(y.alts) == 0 {
			r = isNil(x)
		} else if len(x.alts) == 0 {
			r = isNil(y)
		} else {
			panic(unsupported("slice comparison"))
		}
		if op == token.EQL {
			return r
		}
		return Not(r)
	case *FuncV:
		y := b.(*FuncV)
		var r *Term
		if y.fn == nil && y.builtin == "" {
			r = BoolConst(x.fn == nil && x.builtin == "")
		} else if x.fn == nil && x.builtin == "" {
			r = BoolConst(y.fn == nil && y.builtin == "")
		} else {
			panic(unsupported("func comparison"))
		}
		if op == token.EQL {
			return r
		}
		return Not(r)
	case *MapV:
		y := b.(*MapV)
		r := BoolConst(x.obj == y.obj)
		if op == token.EQL {
			return r
		}
		return Not(r)
	case *TimeV, *StructV:
		if op == token.EQL || op == token.NEQ {
			r := e.valueEq(a, b)
			if op == token.EQL {
				return r
			}
			return Not(r)
		}
	}
	panic(unsupported("binop %v on %T", op, a))
}

func (e *Engine) valueEq(a, b Value) *Term {
	switch x := a.(type) {
	case *Term:
		y := b.(*Term)
		if isF(x.sort) {
			return fCmp(OFEq, x, y)
		}
		return Eq(x, y)
	case *PtrV:
		return PtrEq(x, b.(*PtrV))
	case *StrV:
		y := b.(*StrV)
		if x.conc && y.conc {
			return BoolConst(x.s == y.s)
		}
		return Eq(x.id, y.id)
	case *TimeV:
		return Eq(x.ns, b.(*TimeV).ns)
	case *StructV:
		y := b.(*StructV)
		var cs []*Term
		for i := range x.fields {
			cs = append(cs, e.valueEq(x.fields[i], y.fields[i]))
		}
		return And(cs...)
	case *ArrayV:
		y := b.(*ArrayV)
		var cs []*Term
		for i := range x.elems {
			cs = append(cs, e.valueEq(x.elems[i], y.elems[i]))
		}
		return And(cs...)
	case *IfaceV:
		return e.ifaceEq(x, b.(*IfaceV))
	}
	panic(unsupported("equality on %T", a))
}

func (e *Engine) ifaceEq(x, y *IfaceV) *Term {
	var ds []*Term
	for _, a := range x.alts {
		for _, b := range y.alts {
			if a.typ == nil && b.typ == nil {
				ds = append(ds, And(a.g, b.g))
			} else if a.typ != nil && b.typ != nil && types.Identical(a.typ, b.typ) {
				ds = append(ds, And(a.g, b.g, e.valueEq(a.v, b.v)))
			}
		}
	}
	return Or(ds...)
}

func (e *Engine) binopTerm(st *State, op token.Token, xt types.Type, x, y *Term, yt types.Type, instr ssa.Instruction) Value {
	if x.sort.K == KBool {
		switch op {
		case token.EQL:
			return Eq(x, y)
		case token.NEQ:
			return Not(Eq(x, y))
		case token.AND, token.LAND:
			return And(x, y)
		case token.OR, token.LOR:
			return Or(x, y)
		}
		panic(unsupported("bool binop %v", op))
	}
	if isF(x.sort) {
		switch op {
		case token.ADD:
			return fBin(OFAdd, x, y)
		case token.SUB:
			return fBin(OFSub, x, y)
		case token.MUL:
			return fBin(OFMul, x, y)
		case token.QUO:
			return fBin(OFDiv, x, y)
		case token.LSS:
			return fCmp(OFLt, x, y)
		case token.LEQ:
			return fCmp(OFLe, x, y)
		case token.GTR:
			return fCmp(OFLt, y, x)
		case token.GEQ:
			return fCmp(OFLe, y, x)
		case token.EQL:
			return fCmp(OFEq, x, y)
		case token.NEQ:
			return Not(fCmp(OFEq, x, y))
		}
		panic(unsupported("float binop %v", op))
	}
	signed := isSigned(xt)
	w := x.sort.W
	switch op {
	case token.SHL, token.SHR:
		// shift count: unsigned (or checked non-negative) of any width
		cnt := y
		if isSigned(yt) {
			neg := SLt(cnt, BVConst(0, cnt.sort.W))
			if !neg.IsFalse() {
				e.addQuery("panic", "negative shift amount", And(st.g, neg), instr)
				st.g = And(st.g, Not(neg))
			}
		}
		if cnt.sort.W > w {
			big := ULe(BVConst(int64(w), cnt.sort.W), cnt)
			cnt = Ite(big, BVConst(int64(w), w), Extract(cnt, w-1, 0))
		} else if cnt.sort.W < w {
			cnt = ZExt(cnt, w)
		}
		if op == token.SHL {
			return bvBin(OShl, x, cnt)
		}
		if signed {
			return bvBin(OAShr, x, cnt)
		}
		return bvBin(OLShr, x, cnt)
	}
	if x.sort != y.sort {
		panic(fmt.Sprintf("binop %v width mismatch %v %v at %s", op, x.sort, y.sort, e.prog.Fset.Position(instr.Pos())))
	}
	switch op {
	case token.ADD:
		return Add(x, y)
	case token.SUB:
		return Sub(x, y)
	case token.MUL:
		return Mul(x, y)
	case token.QUO, token.REM:
		z := Eq(y, BVConst(0, w))
		if !z.IsFalse() {
			e.addQuery("panic", "integer divide by zero", And(st.g, z), instr)
			st.g = And(st.g, Not(z))
		}
		if op == token.QUO {
			if signed {
				return SDiv(x, y)
			}
			return UDiv(x, y)
		}
		if signed {
			return SRem(x, y)
		}
		return URem(x, y)
	case token.AND:
		return bvBin(OBAnd, x, y)
	case token.OR:
		return bvBin(OBOr, x, y)
	case token.XOR:
		return bvBin(OBXor, x, y)
	case token.AND_NOT:
		return bvBin(OBAnd, x, BNot(y))
	case token.EQL:
		return Eq(x, y)
	case token.NEQ:
		return Not(Eq(x, y))
	case token.LSS:
		if signed {
			return SLt(x, y)
		}
		return ULt(x, y)
	case token.LEQ:
		if signed {
			return SLe(x, y)
		}
		return ULe(x, y)
	case token.GTR:
		if signed {
			return SLt(y, x)
		}
		return ULt(y, x)
	case token.GEQ:
		if signed {
			return SLe(y, x)
		}
		return ULe(y, x)
	}
	panic(unsupported("int binop %v", op))
}

func (e *Engine) convert(st *State, v Value, from, to types.Type, instr ssa.Instruction) Value {
	fb, fok := from.Underlying().(*types.Basic)
	tb, tok := to.Underlying().(*types.Basic)
	if fok && tok {
		t, isT := v.(*Term)
		switch {
		case isT && fb.Info()&types.IsInteger != 0 && tb.Info()&types.IsInteger != 0:
			w := bvWidth(tb)
			if t.sort.W >= w {
				return Extract(t, w-1, 0)
			}
			if isSigned(from) {
				return SExt(t, w)
			}
			return ZExt(t, w)
		case isT && fb.Info()&types.IsInteger != 0 && tb.Info()&types.IsFloat != 0:
			s, _ := sortOf(to)
			return IntToF(t, isSigned(from), s)
		case isT && fb.Info()&types.IsFloat != 0 && tb.Info()&types.IsInteger != 0:
			return FToInt(t, isSigned(to), bvWidth(tb))
		case isT && fb.Info()&types.IsFloat != 0 && tb.Info()&types.IsFloat != 0:
			s, _ := sortOf(to)
			return FToF(t, s)
		case fb.Info()&types.IsString != 0 && tb.Info()&types.IsString != 0:
			return v
		case fb.Kind() == types.UnsafePointer || tb.Kind() == types.UnsafePointer:
			return v
		}
	}
	// []byte -> string of a slice with concrete small length: string of symbolic bytes
	if sl, ok := from.Underlying().(*types.Slice); ok && tok && tb.Info()&types.IsString != 0 {
		if eb, ok := sl.Elem().Underlying().(*types.Basic); ok && eb.Kind() == types.Uint8 {
			sv := v.(*SliceV)
			if sv.len.IsConst() && sv.len.Int64() <= 8 {
				n := int(sv.len.Int64())
				bytes := make([]*Term, n)
				allConst := true
				for i := 0; i < n; i++ {
					p := e.elemPtr(sv.alts, Add(sv.off, BVConst(int64(i), 64)), 1)
					bytes[i] = e.load(st, p, sl.Elem(), instr).(*Term)
					if !bytes[i].IsConst() {
						allConst = false
					}
				}
				if allConst {
					bs := make([]byte, n)
					for i := range bs {
						bs[i] = byte(bytes[i].Uint64())
					}
					return ConcStr(string(bs))
				}
				return &StrV{bytes: bytes}
			}
			// symbolic length (e.g. the count of a short read): the first len bytes of up
			// to 8 cells; usable for len() and ==/!= against a constant. A length above
			// 8 is outside the encoding (path obligation below).
			if !sv.len.IsConst() && sv.off.IsConst() {
				maxN := 8
				for _, a := range sv.alts {
					if room := a.n - a.base - int(sv.off.Int64()); room < maxN {
						maxN = room
					}
				}
				if maxN >= 0 {
					if tooLong := SLt(BVConst(int64(maxN), 64), sv.len); !tooLong.IsFalse() {
						e.addQuery("panic", "engine limit: string([]byte) of symbolic length above 8 bytes", And(st.g, tooLong), instr)
						st.g = And(st.g, Not(tooLong))
					}
					bytes := make([]*Term, maxN)
					for i := 0; i < maxN; i++ {
						p := e.elemPtr(sv.alts, Add(sv.off, BVConst(int64(i), 64)), 1)
						bytes[i] = e.load(st, p, sl.Elem(), instr).(*Term)
					}
					return &StrV{bytes: bytes, lenT: sv.len}
				}
			}
		}
	}
	if _, ok := to.Underlying().(*types.Pointer); ok {
		return v
	}
	// string -> []byte for concrete strings
	if tsl, ok := to.Underlying().(*types.Slice); ok && fok && fb.Info()&types.IsString != 0 {
		if eb, ok := tsl.Elem().Underlying().(*types.Basic); ok && eb.Kind() == types.Uint8 {
			sv := v.(*StrV)
			if sv.conc {
				o := st.NewObj("bytes", tsl.Elem(), len(sv.s))
				for i := 0; i < len(sv.s); i++ {
					st.write(o, i, BVConst(int64(sv.s[i]), 8))
				}
				n := BVConst(int64(len(sv.s)), 64)
				return &SliceV{alts: []ObjAlt{{g: TTrue, obj: o, base: 0, n: len(sv.s)}}, off: BVConst(0, 64), len: n, cap: n}
			}
		}
	}
	panic(unsupported("convert %v -> %v", from, to))
}

// strBytesEq compares a short symbolic byte-string with a concrete string or
// another byte-string.
func strBytesEq(x, y *StrV) *Term {
	bytesOf := func(v *StrV) []*Term {
		if v.bytes != nil {
			return v.bytes
		}
		if v.conc {
			bs := make([]*Term, len(v.s))
			for i := range bs {
				bs[i] = BVConst(int64(v.s[i]), 8)
			}
			return bs
		}
		panic(unsupported("comparison of a byte-string with a symbolic string id"))
	}
	if x.bytes != nil && x.lenT != nil || y.bytes != nil && y.lenT != nil {
		// symbolic-length prefix string against a concrete string
		if y.conc {
			x, y = y, x
		}
		if !x.conc || y.lenT == nil {
			panic(unsupported("comparison of two symbolic-length byte-strings"))
		}
		if len(x.s) > len(y.bytes) {
			return TFalse
		}
		cs := []*Term{Eq(y.lenT, BVConst(int64(len(x.s)), 64))}
		for i := 0; i < len(x.s); i++ {
			cs = append(cs, Eq(y.bytes[i], BVConst(int64(x.s[i]), 8)))
		}
		return And(cs...)
	}
	a, b := bytesOf(x), bytesOf(y)
	if len(a) != len(b) {
		return TFalse
	}
	var cs []*Term
	for i := range a {
		cs = append(cs, Eq(a[i], b[i]))
	}
	return And(cs...)
}

// symBytesStrID maps a short symbolic byte string to a string id: equal to the
// interned id of every known constant of the same length when bytes match,
// otherwise a fresh "other" id that equals no interned constant.
func (e *Engine) symBytesStrID(bytes []*Term) *Term {
	other := BVConst(int64(0x7fff0000+len(bytes)), 32)
	res := other
	for s, id := range strIntern {
		if len(s) != len(bytes) {
			continue
		}
		var cs []*Term
		for i := range bytes {
			cs = append(cs, Eq(bytes[i], BVConst(int64(s[i]), 8)))
		}
		res = Ite(And(cs...), BVConst(int64(id), 32), res)
	}
	return res
}

func (e *Engine) typeAssert(st *State, iv *IfaceV, x *ssa.TypeAssert) Value {
	target := x.AssertedType
	_, toIface := target.Underlying().(*types.Interface)
	var okG []*Term
	var res Value
	riface := &IfaceV{}
	for _, a := range iv.alts {
		match := false
		if a.typ != nil {
			if toIface {
				match = types.Implements(a.typ, target.Underlying().(*types.Interface))
			} else {
				match = types.Identical(a.typ, target)
			}
		}
		if !match {
			continue
		}
		okG = append(okG, a.g)
		if toIface {
			riface.alts = append(riface.alts, a)
		} else if res == nil {
			res = a.v
		} else {
			res = IteV(a.g, a.v, res)
		}
	}
	ok := Or(okG...)
	if toIface {
		if len(riface.alts) == 0 || !ok.IsTrue() {
			riface.alts = append(riface.alts, IfaceAlt{g: Not(ok)})
		}
		res = riface
	} else if res == nil {
		res = zeroValue(target)
	} else if !ok.IsTrue() {
		res = IteV(ok, res, zeroValue(target))
	}
	if x.CommaOk {
		return &TupleV{vs: []Value{res, ok}}
	}
	if !ok.IsTrue() {
		e.addQuery("panic", "failed type assertion", And(st.g, Not(ok)), x)
		st.g = And(st.g, ok)
	}
	return res
}

// ---------- calls

func (e *Engine) calleeValue(st *State, env Env, c *ssa.CallCommon) *FuncV {
	switch v := c.Value.(type) {
	case *ssa.Function:
		return &FuncV{fn: v}
	case *ssa.Builtin:
		return &FuncV{builtin: v.Name()}
	}
	fv, ok := e.eval(st, env, c.Value).(*FuncV)
	if !ok {
		panic(unsupported("call of non-function value"))
	}
	return fv
}

func (e *Engine) callValue(st *State, fv *FuncV, args []Value, fr *Frame, site ssa.Instruction) (*State, Value) {
	if fv.builtin != "" {
		return e.builtin(st, fv.builtin, args, site)
	}
	if fv.fn == nil {
		e.addQuery("panic", "call of nil func", st.g, site)
		return nil, nil
	}
	return e.callFunction(st, fv.fn, args, fv.bindings, fr, site)
}

func (e *Engine) call(fr *Frame, st *State, env Env, c *ssa.CallCommon, site ssa.Instruction) (*State, Value) {
	var args []Value
	for _, a := range c.Args {
		args = append(args, e.eval(st, env, a))
	}
	if !c.IsInvoke() {
		fv := e.calleeValue(st, env, c)
		if b, ok := c.Value.(*ssa.Builtin); ok {
			return e.builtinTyped(st, b, c, args, site)
		}
		return e.callValue(st, fv, args, fr, site)
	}
	iv := e.eval(st, env, c.Value).(*IfaceV)
	// case split over dynamic types
	var nilG []*Term
	type alt struct {
		g  *Term
		fn *ssa.Function
		v  Value
	}
	var alts []alt
	for _, a := range iv.alts {
		if a.typ == nil {
			nilG = append(nilG, a.g)
			continue
		}
		m := e.prog.LookupMethod(a.typ, c.Method.Pkg(), c.Method.Name())
		if m == nil {
			panic(unsupported("method %s not found on %v", c.Method.Name(), a.typ))
		}
		alts = append(alts, alt{a.g, m, a.v})
	}
	isnil := Or(nilG...)
	if !isnil.IsFalse() {
		e.addQuery("panic", "method call on nil interface", And(st.g, isnil), site)
		st.g = And(st.g, Not(isnil))
	}
	if len(alts) == 0 {
		return nil, nil
	}
	if len(alts) == 1 {
		return e.callFunction(st, alts[0].fn, append([]Value{alts[0].v}, args...), nil, fr, site)
	}
	var accSt *State
	var accV Value
	for _, a := range alts {
		s := st.Fork(And(st.g, a.g))
		if s.g.IsFalse() {
			continue
		}
		ns, v := e.callFunction(s, a.fn, append([]Value{a.v}, args...), nil, fr, site)
		if ns == nil {
			continue
		}
		if accSt == nil {
			accSt, accV = ns, v
		} else {
			if v != nil {
				accV = IteV(a.g, v, accV)
			}
			accSt = MergeStates(a.g, ns, accSt)
		}
	}
	return accSt, accV
}

func (e *Engine) builtinTyped(st *State, b *ssa.Builtin, c *ssa.CallCommon, args []Value, site ssa.Instruction) (*State, Value) {
	switch b.Name() {
	case "append":
		// append(s, elems...) with concrete lengths: allocate fresh backing
		s := args[0].(*SliceV)
		t := args[1].(*SliceV)
		if !s.len.IsConst() || !t.len.IsConst() {
			panic(unsupported("append with symbolic lengths"))
		}
		elem := c.Args[0].Type().Underlying().(*types.Slice).Elem()
		esz := cells(elem)
		n1, n2 := int(s.len.Int64()), int(t.len.Int64())
		o := st.NewObj("append", elem, n1+n2)
		for i := 0; i < n1+n2; i++ {
			var src *PtrV
			if i < n1 {
				src = e.elemPtr(s.alts, Add(s.off, BVConst(int64(i), 64)), esz)
			} else {
				src = e.elemPtr(t.alts, Add(t.off, BVConst(int64(i-n1), 64)), esz)
			}
			v := e.load(st, src, elem, site)
			e.store(st, PtrTo(o, i*esz), elem, v, site)
		}
		n := BVConst(int64(n1+n2), 64)
		return st, &SliceV{alts: []ObjAlt{{g: TTrue, obj: o, base: 0, n: n1 + n2}}, off: BVConst(0, 64), len: n, cap: n}
	case "copy":
		dst := args[0].(*SliceV)
		elem := c.Args[0].Type().Underlying().(*types.Slice).Elem()
		esz := cells(elem)
		src, ok := args[1].(*SliceV)
		if !ok {
			panic(unsupported("copy from string"))
		}
		n := Ite(SLt(dst.len, src.len), dst.len, src.len)
		// bound on elements: the smaller backing size
		maxN := 0
		for _, a := range dst.alts {
			if a.n > maxN {
				maxN = a.n
			}
		}
		if n.IsConst() {
			maxN = int(n.Int64())
		}
		// read all sources first (memmove semantics)
		vals := make([]Value, maxN)
		for i := 0; i < maxN; i++ {
			iT := BVConst(int64(i), 64)
			inr := SLt(iT, n)
			if inr.IsFalse() {
				vals = vals[:i]
				break
			}
			p := e.elemPtr(src.alts, Add(src.off, iT), esz)
			p = restrictPtr(p, inr)
			if len(p.alts) == 0 {
				continue
			}
			vals[i] = e.load(st, p, elem, site)
		}
		for i := range vals {
			if vals[i] == nil {
				continue
			}
			iT := BVConst(int64(i), 64)
			inr := SLt(iT, n)
			p := e.elemPtr(dst.alts, Add(dst.off, iT), esz)
			p = restrictPtr(p, inr)
			if len(p.alts) == 0 {
				continue
			}
			if inr.IsTrue() {
				e.store(st, p, elem, vals[i], site)
			} else {
				// conditional store
				for _, a := range p.alts {
					cs := flatten(elem, vals[i], nil)
					for k := range cs {
						old := st.read(a.obj, a.off+k)
						st.write(a.obj, a.off+k, IteV(a.g, cs[k], old))
					}
				}
			}
		}
		return st, n
	}
	return e.builtin(st, b.Name(), args, site)
}

// restrictPtr conjoins g to every alternative guard and drops false ones.
func restrictPtr(p *PtrV, g *Term) *PtrV {
	r := &PtrV{}
	for _, a := range p.alts {
		ng := And(a.g, g)
		if ng.IsFalse() {
			continue
		}
		r.alts = append(r.alts, PtrAlt{ng, a.obj, a.off})
	}
	return r
}

func (e *Engine) builtin(st *State, name string, args []Value, site ssa.Instruction) (*State, Value) {
	switch name {
	case "delete":
		m := args[0].(*MapV)
		if m.obj == nil {
			return st, nil
		}
		old := st.read(m.obj, 0).(*MapContent)
		nc := &MapContent{ents: map[string]mapEnt{}}
		nc.keys = append(nc.keys, old.keys...)
		for kk, vv := range old.ents {
			nc.ents[kk] = vv
		}
		for _, ka := range e.mapKeys(args[1]) {
			if en, ok := nc.ents[ka.s]; ok {
				nc.ents[ka.s] = mapEnt{And(Not(ka.g), en.present), en.v}
			}
		}
		st.write(m.obj, 0, nc)
		return st, nil
	case "len":
		switch x := args[0].(type) {
		case *SliceV:
			return st, x.len
		case *StrV:
			if x.conc {
				return st, BVConst(int64(len(x.s)), 64)
			}
			if x.bytes != nil && x.lenT != nil {
				return st, x.lenT
			}
			if x.bytes != nil {
				return st, BVConst(int64(len(x.bytes)), 64)
			}
			if x.lenT != nil {
				return st, x.lenT
			}
		case *MapV:
			if x.obj == nil {
				return st, BVConst(0, 64)
			}
			n := BVConst(0, 64)
			mc := st.read(x.obj, 0).(*MapContent)
			for _, k := range mc.keys {
				n = Add(n, Ite(mc.ents[k].present, BVConst(1, 64), BVConst(0, 64)))
			}
			return st, n
		case *ArrayV:
			return st, BVConst(int64(len(x.elems)), 64)
		}
	case "cap":
		if x, ok := args[0].(*SliceV); ok {
			return st, x.cap
		}
	case "print", "println":
		return st, nil
	case "ssa:wrapnilchk":
		p := args[0].(*PtrV)
		cp := &PtrV{alts: append([]PtrAlt{}, p.alts...)}
		e.checkNonNil(st, cp, site)
		return st, cp
	}
	panic(unsupported("builtin %s on %T", name, args[0]))
}
