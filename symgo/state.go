package main

// Symbolic machine state: absolute path guard + copy-on-write heap.

import (
	"fmt"
	"go/types"
	"sort"
)

type ObjData struct {
	cells []Value
	owner *State
}

type State struct {
	g    *Term
	heap map[int]*ObjData
	objs map[int]*Obj
}

func NewState() *State {
	return &State{g: TTrue, heap: map[int]*ObjData{}, objs: map[int]*Obj{}}
}

func (s *State) Fork(g *Term) *State {
	n := &State{g: g, heap: make(map[int]*ObjData, len(s.heap)+4), objs: s.objs}
	for k, v := range s.heap {
		n.heap[k] = v
	}
	return n
}

var objCounter int

func (s *State) NewObj(label string, elem types.Type, n int) *Obj {
	objCounter++
	o := &Obj{id: objCounter, label: label, elem: elem, n: n, esz: cells(elem)}
	cs := make([]Value, 0, n*o.esz)
	if n > 0 && o.esz > 0 {
		z := flatten(elem, zeroValue(elem), nil)
		for i := 0; i < n; i++ {
			cs = append(cs, z...)
		}
	}
	s.heap[o.id] = &ObjData{cells: cs, owner: s}
	s.objs[o.id] = o
	return o
}

func (s *State) read(o *Obj, off int) Value {
	d := s.heap[o.id]
	if d == nil {
		panic(fmt.Sprintf("read of unknown object %v", o))
	}
	if off < 0 || off >= len(d.cells) {
		panic(fmt.Sprintf("engine: cell offset %d out of range for %v (%d cells)", off, o, len(d.cells)))
	}
	return d.cells[off]
}

func (s *State) write(o *Obj, off int, v Value) {
	d := s.heap[o.id]
	if d == nil {
		panic(fmt.Sprintf("write of unknown object %v", o))
	}
	if d.owner != s {
		nd := &ObjData{cells: make([]Value, len(d.cells)), owner: s}
		copy(nd.cells, d.cells)
		s.heap[o.id] = nd
		d = nd
	}
	if off < 0 || off >= len(d.cells) {
		panic(fmt.Sprintf("engine: cell offset %d out of range for %v (%d cells)", off, o, len(d.cells)))
	}
	d.cells[off] = v
}

// MergeStates: result equals a when sel holds, b otherwise. Either may be nil (dead).
func MergeStates(sel *Term, a, b *State) *State {
	if a == nil || a.g.IsFalse() {
		return b
	}
	if b == nil || b.g.IsFalse() {
		return a
	}
	m := &State{g: Or(a.g, b.g), heap: make(map[int]*ObjData, len(a.heap)), objs: a.objs}
	ids := make([]int, 0, len(a.heap))
	for id := range a.heap {
		ids = append(ids, id)
	}
	sort.Ints(ids)
	for _, id := range ids {
		da := a.heap[id]
		db, ok := b.heap[id]
		if !ok && a.objs[id] != nil && a.objs[id].glob {
			o := a.objs[id]
			db, ok = &ObjData{cells: flatten(o.elem, zeroValue(o.elem), nil)}, true
		}
		if !ok || da == db {
			m.heap[id] = da
			continue
		}
		nd := &ObjData{cells: make([]Value, len(da.cells)), owner: m}
		for i := range da.cells {
			x, y := da.cells[i], db.cells[i]
			if x == y {
				nd.cells[i] = x
			} else {
				nd.cells[i] = IteV(sel, x, y)
			}
		}
		m.heap[id] = nd
	}
	for id, db := range b.heap {
		if _, ok := a.heap[id]; !ok {
			if o := a.objs[id]; o != nil && o.glob {
				z := flatten(o.elem, zeroValue(o.elem), nil)
				nd := &ObjData{cells: make([]Value, len(z)), owner: m}
				for i := range z {
					nd.cells[i] = IteV(sel, z[i], db.cells[i])
				}
				m.heap[id] = nd
			} else {
				m.heap[id] = db
			}
		}
	}
	return m
}
