package main

// Intercepted callees: the harness runtime (zz*), and the small set of
// library functions that are modelled rather than executed.

import (
	"fmt"
	"go/types"
	"math/big"
	"path"
	"path/filepath"
	"strings"

	"golang.org/x/tools/go/ssa"
)

// ns between 0001-01-01 and 1970-01-01 UTC
var unixEpochNs = new(big.Int).Mul(big.NewInt(62135596800), big.NewInt(1000000000))

func (e *Engine) nondet(label string, idx *Term, s Sort) *Term {
	if !idx.IsConst() {
		panic(unsupported("nondet index must be concrete (label %s)", label))
	}
	name := fmt.Sprintf("%s#%d", label, idx.Int64())
	if fixedVals != nil {
		// concrete re-execution of a model (engine-concrete replay)
		return BVConst(fixedVals[name], s.W)
	}
	if _, ok := e.nondets[name]; !ok {
		e.nondets[name] = s
		e.ndOrder = append(e.ndOrder, name)
	}
	return Var(name, s)
}

// poolStr: message pool of zzStrID; index 0 is the empty string.
func poolStr(k int64) string {
	if k == 0 {
		return ""
	}
	return fmt.Sprintf("zzmsg%d", k)
}

func concStr(v Value) string {
	s, ok := v.(*StrV)
	if !ok || !s.conc {
		panic(unsupported("expected concrete string argument"))
	}
	return s.s
}

var params = map[string]int64{}

// fixedVals, when non-nil, makes every nondet a constant (missing = 0).
var fixedVals map[string]int64

// lemmasOff disables zzLemma (second pass when a helper lemma was not proved).
var lemmasOff bool

// checkProp: the property a `check` run is deciding ("" for ad-hoc runs).
var checkProp string

// fixedNow (ns since 1970), when non-zero, is what time.Now returns.
var fixedNow int64

// invNoAssume: "Inv:" assertions are checked but not assumed afterwards.
var invNoAssume bool

func (e *Engine) intrinsic(st *State, fn *ssa.Function, name string, args []Value, caller *Frame, site ssa.Instruction) (Value, bool, *State) {
	short := fn.Name()
	if strings.HasPrefix(short, "zz") && fn.Pkg != nil {
		switch short {
		case "zzInt":
			return e.nondet(concStr(args[0]), args[1].(*Term), SBV(64)), true, st
		case "zzI64":
			return e.nondet(concStr(args[0]), args[1].(*Term), SBV(64)), true, st
		case "zzU16":
			v := e.nondet(concStr(args[0]), args[1].(*Term), SBV(64))
			st.g = And(st.g, ULe(v, BVConst(0xffff, 64)))
			return Extract(v, 15, 0), true, st
		case "zzU8":
			v := e.nondet(concStr(args[0]), args[1].(*Term), SBV(64))
			st.g = And(st.g, ULe(v, BVConst(0xff, 64)))
			return Extract(v, 7, 0), true, st
		case "zzU32":
			v := e.nondet(concStr(args[0]), args[1].(*Term), SBV(64))
			st.g = And(st.g, ULe(v, BVConst(0xffffffff, 64)))
			return Extract(v, 31, 0), true, st
		case "zzBool":
			v := e.nondet(concStr(args[0]), args[1].(*Term), SBV(64))
			st.g = And(st.g, ULe(v, BVConst(1, 64)))
			return Eq(v, BVConst(1, 64)), true, st
		case "zzF32bits":
			// float32 from 32 nondet bits
			v := e.nondet(concStr(args[0]), args[1].(*Term), SBV(64))
			st.g = And(st.g, ULe(v, BVConst(0xffffffff, 64)))
			return FFromBits(Extract(v, 31, 0), SF32), true, st
		case "zzParam":
			n := concStr(args[0])
			v, ok := params[n]
			if !ok {
				panic(unsupported("missing concrete parameter %q", n))
			}
			return BVConst(v, 64), true, st
		case "zzAssume":
			c := args[0].(*Term)
			st.g = And(st.g, c)
			if st.g.IsFalse() {
				return nil, true, nil
			}
			return nil, true, st
		case "zzAssert":
			c := args[0].(*Term)
			lbl := concStr(args[1])
			e.addQuery("assert", lbl, And(st.g, Not(c)), site)
			if checkProp != "" && !relevant(checkProp, lbl) {
				// obligations of other properties are recorded (and ignored by this
				// check) but not assumed, so they cannot mask this property's own
				return nil, true, st
			}
			if invNoAssume && strings.HasPrefix(lbl, "Inv:") {
				// second pass after a broken invariant: do not assume it, so that its
				// property-level consequences in later steps become visible
				return nil, true, st
			}
			st.g = And(st.g, c)
			if st.g.IsFalse() {
				return nil, true, nil
			}
			return nil, true, st
		case "zzLemma":
			// helper lemma: proved as its own query, then assumed. If any lemma of an
			// instance is not proved the driver re-runs the instance with lemmas off.
			if lemmasOff {
				return nil, true, st
			}
			c := args[0].(*Term)
			e.addQuery("lemma", concStr(args[1]), And(st.g, Not(c)), site)
			st.g = And(st.g, c)
			if st.g.IsFalse() {
				return nil, true, nil
			}
			return nil, true, st
		case "zzReach":
			e.addQuery("reach", concStr(args[0]), st.g, site)
			return nil, true, st
		case "zzTimeNs":
			ns := args[0].(*Term)
			return &TimeV{ns: Add(SExt(ns, 128), BVConstBig(unixEpochNs, 128))}, true, st
		case "zzFieldInt", "zzSetFieldInt":
			iv := args[0].(*IfaceV)
			if len(iv.alts) != 1 || iv.alts[0].typ == nil {
				panic(unsupported("%s needs a definite pointer", short))
			}
			pt, ok := iv.alts[0].typ.Underlying().(*types.Pointer)
			if !ok {
				panic(unsupported("%s needs a pointer to struct", short))
			}
			stt, ok := pt.Elem().Underlying().(*types.Struct)
			if !ok {
				panic(unsupported("%s needs a pointer to struct", short))
			}
			fname := concStr(args[1])
			fi := -1
			for i := 0; i < stt.NumFields(); i++ {
				if stt.Field(i).Name() == fname {
					fi = i
				}
			}
			if fi < 0 {
				panic(unsupported("%s: no field %s in %v", short, fname, pt.Elem()))
			}
			ft := stt.Field(fi).Type()
			p := iv.alts[0].v.(*PtrV)
			fp := &PtrV{}
			for _, a := range p.alts {
				fp.alts = append(fp.alts, PtrAlt{a.g, a.obj, a.off + fieldOffset(stt, fi)})
			}
			fs, ok := sortOf(ft)
			if !ok || (fs.K != KBV && fs.K != KBool) {
				panic(unsupported("%s: field %s is not an integer/bool", short, fname))
			}
			if short == "zzFieldInt" {
				v := e.load(st, fp, ft, site).(*Term)
				if fs.K == KBool {
					return Ite(v, BVConst(1, 64), BVConst(0, 64)), true, st
				}
				if isSigned(ft) {
					return SExt(v, 64), true, st
				}
				return ZExt(v, 64), true, st
			}
			v := args[2].(*Term)
			var nv Value
			if fs.K == KBool {
				nv = Not(Eq(v, BVConst(0, 64)))
			} else {
				nv = Extract(v, fs.W-1, 0)
			}
			e.store(st, fp, ft, nv, site)
			return nil, true, st
		case "zzFieldVal", "zzSetFieldStr":
			iv := args[0].(*IfaceV)
			if len(iv.alts) != 1 || iv.alts[0].typ == nil {
				panic(unsupported("%s needs a definite pointer", short))
			}
			pt, ok := iv.alts[0].typ.Underlying().(*types.Pointer)
			if !ok {
				panic(unsupported("%s needs a pointer to struct", short))
			}
			stt, ok := pt.Elem().Underlying().(*types.Struct)
			if !ok {
				panic(unsupported("%s needs a pointer to struct", short))
			}
			fname := concStr(args[1])
			fi := -1
			for i := 0; i < stt.NumFields(); i++ {
				if stt.Field(i).Name() == fname {
					fi = i
				}
			}
			if fi < 0 {
				panic(unsupported("%s: no field %s in %v", short, fname, pt.Elem()))
			}
			ft := stt.Field(fi).Type()
			p := iv.alts[0].v.(*PtrV)
			fp := &PtrV{}
			for _, a := range p.alts {
				fp.alts = append(fp.alts, PtrAlt{a.g, a.obj, a.off + fieldOffset(stt, fi)})
			}
			if short == "zzSetFieldStr" {
				e.store(st, fp, ft, args[2], site)
				return nil, true, st
			}
			v := e.load(st, fp, ft, site)
			if _, isIface := ft.Underlying().(*types.Interface); isIface {
				return v, true, st
			}
			return &IfaceV{alts: []IfaceAlt{{g: TTrue, typ: ft, v: v}}}, true, st
		case "zzSymbolic":
			return TTrue, true, st
		case "zzStrID":
			// symbolic string drawn from a concrete pool: zzStr(label, idx, n) = pool string k<n
			v := e.nondet(concStr(args[0]), args[1].(*Term), SBV(64))
			n := args[2].(*Term).Int64()
			st.g = And(st.g, ULt(v, BVConst(n, 64)))
			var id *Term
			for k := n - 1; k >= 0; k-- {
				kid := internStr(poolStr(k))
				if id == nil {
					id = kid
				} else {
					id = Ite(Eq(v, BVConst(k, 64)), kid, id)
				}
			}
			return &StrV{id: id}, true, st
		}
	}
	if short == "isNullOrNullPointer" && fn.Pkg != nil && strings.HasSuffix(fn.Pkg.Pkg.Path(), "/motion") {
		// reflect-based helper: nil interface, or nil pointer inside the interface
		iv := args[0].(*IfaceV)
		var ds []*Term
		for _, a := range iv.alts {
			if a.typ == nil {
				ds = append(ds, a.g)
			} else if p, ok := a.v.(*PtrV); ok {
				ds = append(ds, And(a.g, p.IsNil()))
			}
		}
		return Or(ds...), true, st
	}
	switch name {
	case "(*sync.Mutex).Lock", "(*sync.Mutex).Unlock", "(*sync.RWMutex).Lock", "(*sync.RWMutex).Unlock",
		"(*sync.RWMutex).RLock", "(*sync.RWMutex).RUnlock":
		return nil, true, st
	case "log.Print", "log.Printf", "log.Println":
		return nil, true, st
	case "fmt.Sprintf", "fmt.Sprint":
		return e.sprintf(st, args, site), true, st
	case "fmt.Errorf":
		// an error value distinct from nil with an opaque message
		ef := e.prog.ImportedPackage("errors")
		if ef == nil {
			panic(unsupported("errors package not loaded"))
		}
		nst, r := e.callFunction(st, ef.Func("New"), []Value{ConcStr("<fmt.Errorf>")}, nil, caller, site)
		return r, true, nst
	case "time.Now":
		if fixedNow != 0 {
			return &TimeV{ns: Add(BVConst(fixedNow, 128), BVConstBig(unixEpochNs, 128))}, true, st
		}
		panic(unsupported("time.Now must be stubbed by the harness"))
	case "(time.Time).Sub":
		a, b := args[0].(*TimeV), args[1].(*TimeV)
		d := Sub(a.ns, b.ns)
		maxD := BVConstBig(new(big.Int).Sub(new(big.Int).Lsh(big.NewInt(1), 63), big.NewInt(1)), 128)
		minD := BVConstBig(new(big.Int).Neg(new(big.Int).Lsh(big.NewInt(1), 63)), 128)
		r := Ite(SLt(maxD, d), maxD, Ite(SLt(d, minD), minD, d))
		return Extract(r, 63, 0), true, st
	case "(time.Time).Add":
		a := args[0].(*TimeV)
		return &TimeV{ns: Add(a.ns, SExt(args[1].(*Term), 128))}, true, st
	case "(time.Time).Before":
		return SLt(args[0].(*TimeV).ns, args[1].(*TimeV).ns), true, st
	case "(time.Time).After":
		return SLt(args[1].(*TimeV).ns, args[0].(*TimeV).ns), true, st
	case "(time.Time).Equal":
		return Eq(args[0].(*TimeV).ns, args[1].(*TimeV).ns), true, st
	case "(time.Time).IsZero":
		return Eq(args[0].(*TimeV).ns, BVConst(0, 128)), true, st
	case "(time.Time).UnixNano":
		return Extract(Sub(args[0].(*TimeV).ns, BVConstBig(unixEpochNs, 128)), 63, 0), true, st
	case "path.Join", "path/filepath.Join":
		// concrete call-through
		sl := args[0].(*SliceV)
		if !sl.len.IsConst() {
			panic(unsupported("%s with symbolic argument count", name))
		}
		var parts []string
		strT := types.Typ[types.String]
		for i := 0; i < int(sl.len.Int64()); i++ {
			p := e.elemPtr(sl.alts, Add(sl.off, BVConst(int64(i), 64)), 1)
			parts = append(parts, concStr(e.load(st, p, strT, site)))
		}
		if name == "path.Join" {
			return ConcStr(path.Join(parts...)), true, st
		}
		return ConcStr(filepath.Join(parts...)), true, st
	case "math.Max":
		return fBin(OFMax, args[0].(*Term), args[1].(*Term)), true, st
	case "math.Min":
		return fBin(OFMin, args[0].(*Term), args[1].(*Term)), true, st
	case "math.Abs":
		return FAbs(args[0].(*Term)), true, st
	case "math.Float32frombits", "math.Float64frombits", "math.Float32bits", "math.Float64bits":
		panic(unsupported("%s", name))
	}
	return nil, false, st
}

func (e *Engine) sprintf(st *State, args []Value, site ssa.Instruction) Value {
	// opaque unless everything is a concrete string
	f, ok := args[0].(*StrV)
	if ok && f.conc && !strings.Contains(f.s, "%") {
		return f
	}
	if ok && f.conc && f.s == "%s" {
		if sl, ok := args[1].(*SliceV); ok && sl.len.IsConst() && sl.len.Int64() == 1 {
			p := e.elemPtr(sl.alts, sl.off, 1)
			iv := e.load(st, p, types.NewInterfaceType(nil, nil), site).(*IfaceV)
			if len(iv.alts) == 1 && iv.alts[0].typ != nil {
				if s, ok := iv.alts[0].v.(*StrV); ok {
					return s
				}
			}
		}
	}
	// concrete call-through when the format and every argument are concrete
	if ok && f.conc && len(args) > 1 {
		if sl, ok := args[1].(*SliceV); ok && sl.len.IsConst() {
			var goArgs []interface{}
			all := true
			for i := 0; i < int(sl.len.Int64()) && all; i++ {
				p := e.elemPtr(sl.alts, Add(sl.off, BVConst(int64(i), 64)), 1)
				iv, isI := e.load(st, p, types.NewInterfaceType(nil, nil), site).(*IfaceV)
				if !isI || len(iv.alts) != 1 || iv.alts[0].typ == nil {
					all = false
					break
				}
				switch v := iv.alts[0].v.(type) {
				case *StrV:
					if !v.conc {
						all = false
					} else {
						goArgs = append(goArgs, v.s)
					}
				case *Term:
					if !v.IsConst() || v.sort.K == KF32 || v.sort.K == KF64 {
						all = false
					} else if v.sort.K == KBool {
						goArgs = append(goArgs, v.b)
					} else if isSigned(iv.alts[0].typ) {
						goArgs = append(goArgs, v.Int64())
					} else {
						goArgs = append(goArgs, v.Uint64())
					}
				default:
					all = false
				}
			}
			if all {
				return ConcStr(fmt.Sprintf(f.s, goArgs...))
			}
		}
	}
	pos := e.prog.Fset.Position(site.Pos()).String()
	return ConcStr("<sprintf@" + pos + ">")
}
