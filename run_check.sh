#!/bin/sh
# usage: run_check.sh <property> <quick|thorough>
# exit 0 = held within bounds; 1 = VIOLATION (replayed natively); other = inconclusive/internal error
export GOFLAGS=-mod=mod GOPROXY=off GOSUMDB=off GOTOOLCHAIN=local GOWORK=off
cd /verif || exit 3
if [ ! -x /verif/bin/symgo ] || [ -n "$(find /verif/symgo -name '*.go' -newer /verif/bin/symgo 2>/dev/null)" ]; then
  (cd /verif/symgo && go build -o /verif/bin/symgo .) || exit 3
fi
exec /verif/bin/symgo check "$1" --tier "${2:-quick}"
